#!/usr/bin/env python3
# Generates MANIFEST.json from the table below (kept in one place so that it stays valid).
import json, subprocess
checks = {
 "C10": dict(level="proof", technique="contract-based deductive verification: SMT-discharged postconditions (bit-vector / IEEE float) on every instantiation of the real generic functions via go/ssa",
   text="Every ToX[C] instantiation (10 targets x 16 source kinds incl. named float/int types) is proved against 'Z(result) == clamp(trunc(i), MinT, MaxT)' for all bit patterns of the source; the two boundary helpers are proved against their own contracts and callers only use those contracts; each float->int conversion instruction is proved to have its operand inside the target range; no panicking instruction is reachable.",
   note="Trusted: govc VC generator + go/ssa lowering, the three SMT solvers, Go semantics as encoded (linux/amd64; out-of-range float->int treated as unspecified). NaN inputs excluded by precondition (the statement defines no nearest bound). Monotonicity follows from the proved closed form (clamp∘trunc is monotone) and is not a separate obligation.",
   ref="§5 C10"),
 "C11": dict(level="proof", technique="contract-based deductive verification over an error algebra (errors.Is as an uninterpreted relation with reflexivity / atomic-sentinel / %w-wrapping axioms), SMT-discharged postconditions on the real constructors and converters",
   text="Errorf/New/Newf/WrapError(f)/WrapIfNotCommonError(f) are proved to return a fresh error that matches exactly the kind they were given (wrapK), with a cancellation/deadline cause always surfacing as ErrCancelled/ErrTimeout; Any/None are proved against their quantified definition (loop invariant); ConvertContextError, ConvertIOError, ConvertFileSystemError, convertZipError, ConvertProcessError, platform.ConvertError are proved nil-iff-nil (ESRCH exception explicit), context kinds preserved, and each result is the input or one of the library kinds; deserialiseCommonError is verified once per kind text (finite domain, 33 cases) to return exactly that kind.",
   note="Trusted: govc, go/ssa, the solvers; the errors.Is algebra (fmt.Errorf %w, errors.New atomic, errors.Join) and syscall.Errno.Is as read from the standard library; os.IsTimeout/IsExist/... as deterministic unknown predicates. Not decided: reason-text equality up to whitespace through Split/Trim/Join (processErrorStrLine), multi-error joins beyond kinds.",
   ref="§5 C11"),
 "C14": dict(level="proof", technique="contract-based deductive verification: bit-vector/IEEE-float postconditions on the real back-off policies and Retry-After parser, loop invariant on parseDate, lemma over the closed form",
   text="findRetryAfter: found ==> wait >= 0 and only on 429/503 (all header values, clock arbitrary at every read); Basic policy: result == min unless the enabled hint applies, never negative; Linear policy: the dependency's documented range is passed through unchanged; Exponential policy: min <= result <= max for every n in [0,2^31], closed form min<<n capped at max for n <= 9, == max (or 0 when min == 0) above 100, monotone lemma; BackOffPolicyFactory: policy kind and Retry-After switch as a function of the configuration flags; parseDate proved equivalent to 'some of the five layouts parses'.",
   note="Trusted: govc, go/ssa, solvers; math.Pow(2,float64(n)) exact power of two (IEEE), retryablehttp.LinearJitterBackoff's documented range, strconv.ParseInt/time.Parse as deterministic functions. Not decided: attempt counting inside retry-go (RetryIf/RetryOnError hand the configuration to retry.Do; the dependency's loop is not under contract), closed form of the exponential policy for 9 < n <= 100 (solver limit on fp.mul with a symbolic exponent; range and the two outer closed forms are proved), wall-clock spacing.",
   ref="§5 C14"),
 "C20": dict(level="proof", technique="contract-based deductive verification: ghost byte-stream state (bytes fed to the hasher since its last Reset) as postcondition on every exit path of the real functions",
   text="(*hashingAlgo).CalculateWithContext / Calculate: given a pristine hasher, on EVERY exit (success, nil reader, read error, cancellation) the hasher is pristine again, no other hasher is touched, and on success the result is hex(Sum) over exactly the bytes the reader had to deliver; newHashingAlgorithm never fails.",
   note="Trusted: govc, go/ssa, solvers; hash.Hash (Reset empties the state, Sum is a function of object and bytes fed), the byte flow through safeio.CopyDataWithContext (dst receives src's bytes in order: trusted clause, wrapper transparency of contextio not proved). Not decided: that md5/sha1/sha256/blake2b/xxhash/murmur3 equal their reference digests and are chunking independent (dependency code); fileHashing.calculateFile handle balance belongs to C06.",
   ref="§5 C20"),
 "C09": dict(level="proof", technique="contract-based deductive verification: schema contracts over every context-accepting function of the filesystem package (call-site assertions discharged by SMT), contracts on the safeio helpers, per-iteration typestate",
   text="safeio: ReadAtMost returns at most max bytes and is non-empty on success, CopyNWithContext copies exactly n or errs, all helpers refuse a done context without touching the streams. filesystem (73 functions): with a context already done at the call (ctxDone), no mutating backend operation is reached - also through context-free helpers, and a context handed on is the caller's - and the call fails (non-nil; exactly the context kind for removal with a live resource); inside every loop each backend operation is preceded in the same iteration by a context test.",
   note="Trusted: govc, go/ssa, solvers; context.Context.Err (once done always done), io.CopyN/LimitReader/bytes.Buffer contracts, values of FS/ICloseableFS are *VFS. Not decided: that the error under a done context is always the context KIND (several operations validate arguments with backend reads first and may report that failure instead - they do fail); real asynchrony; io.Copy buffer boundaries; Parallelise-based garbage collection fan-out.",
   ref="§5 C09"),
 "C07": dict(level="proof", technique="contract-based deductive verification: schema contract on all 120 *VFS methods - every backend call site carries the assertion 'resource not closed', discharged from the guard's own contract",
   text="Closed-resource guard: on every path of every *VFS method, each operation reaching the backend (afero.Fs methods, the optional backend interfaces, afero helpers over fs.vfs) is dominated by the closed-resource test, so a closed zip/tar filesystem serves nothing; direct accessors return the 'failed condition' kind once closed; the guard helper itself is proved (nil iff open). Fields of VFS are proved immutable after construction.",
   note="Trusted: govc, go/ssa, solvers; ICloseableResource.IsClosed as a deterministic predicate during one call (no concurrent Close). Not decided (dependency code): the byte-level zip->unzip round trip, zipfs/tarfs views, read-only refusal by afero.ReadOnlyFs; the returned-list clause is covered by C02/C03's work on unzip.",
   ref="§5 C07"),
 "C02": dict(level="proof", technique="contract-based deductive verification: string-theory postcondition of the path sanitiser (all entry names, all destinations), frame assertions at every mutating call of the extraction, path lemmas",
   text="sanitiseZipExtractPath: success implies the joined path lies lexically inside the destination (is it, or starts with destination+'/' and has no '..'), failure is the 'suspected malicious intent' kind - for every entry name and destination string. unzip / unzipZippedFile / unzipNestedZipFiles: every mutating call (MkDir, OpenFile, Chtimes, the recursive extraction, the removal of a nested archive) names a path inside the cleaned destination, including the transcoded path of non-UTF-8 names and the destination derived for nested archives; containment is transitive (lemma).",
   note="Trusted: govc, go/ssa, solvers (string goals: cvc5); axioms about filepath.Dir/Join/Base/Clean on symbolic paths (specs/path.spec); the platform separator is '/' (entry-point precondition); opening an existing directory for writing is refused by the backend (trusted clause). Not decided: symbolic links already inside the destination, hard links, the OS's own resolution; re-stamping by preserveDirectoriesTimestamps uses the recorded sanitised paths (map invariant not proved).",
   ref="§5 C02"),
 "C03": dict(level="proof", technique="contract-based deductive verification: loop invariant on the running totals of the extraction loop (bit-vector arithmetic), call-site assertion on the exact-length copy, ghost 'source drained' state",
   text="unzip: loop invariant - with limits applied the byte counter never exceeds MaxTotalSize and the entry counter never exceeds MaxFileCount at the loop head, for files, directories and nested archives alike; success implies the returned totals are within the limits; unzipZippedFile copies exactly the declared size, which is within MaxFileSize, and succeeds only after the entry stream has been read to its end (an entry longer than its header declares is an error); newZipReader refuses archives beyond the depth limit; nested archives to any depth by recursion through the contracts.",
   note="Trusted: govc, go/ssa, solvers; ILimits getters are pure functions of the object; go.uber.org/atomic counters behave as cells; io.CopyN's contract. The invariant bounds the counters the code compares with the limits, not an independent ghost sum of bytes on disk (a change that stops feeding the counter is not caught - corpus/missed/C03). uint64 wrap-around of the totals is physically unreachable and not excluded. Not decided: what is physically on disk, compression ratios.",
   ref="§5 C03"),
}
not_applicable = {
 "C05": "observable is the set of live OS processes and a wall-clock bound (kernel, os/exec, gopsutil): no contract on a /repo function can state it",
 "C15": "precedence of flags/env/file/defaults is implemented by viper/pflag/mapstructure through reflection; a contract would assume the very precedence it should decide",
 "C16": "quantifies over crash points and multi-process interleavings on a shared directory; per-function partial-correctness contracts have no crash semantics",
}
pending = ["C01","C02","C03","C04","C06","C07","C08","C09","C11","C12","C13","C14","C17","C18","C19","C20"]
for p in pending:
    if p not in checks:
        not_applicable[p] = "no check registered yet in this revision of /verif (contracts for this property are still being written; see DESIGN.md §5 for the planned obligations)"
m = {
 "version": 1,
 "setup_cmd": "cd /verif/govc && GOFLAGS=-mod=mod GOPROXY=off go build -o ../bin/govc .",
 "hooks": {"guard": "verif", "enable": "go build -tags verif (govc loads /repo/utils with BuildFlags=-tags=verif; the hooks are comment-only files zz_contracts_verif.go)",
           "baseline_off_cmd": json.load(open('/root/.vp/BASELINE.json'))["cmd"],
           "source_commits": subprocess.run("git -C /repo log --format=%h --grep='^verif hooks'", shell=True, capture_output=True, text=True).stdout.split(),
           "add_only": True},
 "engines": [{"name": "govc", "path": "/verif/govc", "serves_properties": sorted(checks), "kind_free_text": "VC generator for Go written here: go/packages+go/ssa (NaiveForm) symbolic execution of each function under contract against the contracts of its callees, loop cut at invariants, one SMT-LIB query per obligation, z3 4.8.12 / z3 5.1.0 / cvc5 1.0.3 raced; counterexample models replayed against the real code with go test -overlay"}],
 "checks": [],
 "not_applicable": [{"property_id": k, "reason": v} for k, v in sorted(not_applicable.items())],
 "notes": "Family: contract-based deductive verification of the real code. Contracts live in /repo/utils/<pkg>/zz_contracts_verif.go (//go:build verif, comment-only). Dependency contracts and spec functions: /verif/specs. Known findings: /verif/known_findings.json. Must-fail corpus: /verif/selftest."
}
for pid in sorted(checks):
    c = checks[pid]
    m["checks"].append({
      "property_id": pid, "quick_cmd": f"./check {pid}", "thorough_cmd": f"./check {pid} --thorough",
      "evidence_file": f"/verif/evidence/{pid}.json", "replay_cmd_template": "cat {path}", "engine": "govc",
      "level_claimed": {"category": c["level"], "text": c["text"], "design_ref": c["ref"]},
      "level_note": c["note"], "technique": c["technique"]})
json.dump(m, open('/verif/MANIFEST.json','w'), indent=1)
