package main

import (
	"golang.org/x/tools/go/ssa/ssautil"
	"encoding/json"
	"flag"
	"fmt"
	"os"
	"path/filepath"
	"sort"
	"strconv"
	"strings"
	"time"
)

type PropConfig struct {
	Packages   []string          `json:"packages"`
	Level      string            `json:"level"`
	Undecided  []string          `json:"undecided_clauses"`
	TimeoutQ   int               `json:"timeout_quick"`
	TimeoutT   int               `json:"timeout_thorough"`
	Replay     map[string]string `json:"replay"` // function key substring -> replay driver
	Assumption []string          `json:"assumptions"`
	MinObl     int               `json:"min_obligations"`
	AxCheck    []string          `json:"axcheck"` // spec files whose axioms are validated (bounded) against the real library on every run
}

// verifDir: where specs, props.json, known_findings.json, evidence and out/ live. GOVC_VERIF_DIR redirects all of them to a
// development copy (used to try engine or spec changes while a corpus run is using /verif); registered commands never set it.
var verifDir = func() string {
	if d := os.Getenv("GOVC_VERIF_DIR"); d != "" {
		return d
	}
	return "/verif"
}()

func main() {
	prop := flag.String("prop", "", "property id")
	tier := flag.String("tier", os.Getenv("VERIF_TIER"), "quick|thorough")
	only := flag.String("only", "", "verify only functions whose key contains this")
	dump := flag.Bool("dump", false, "print obligations and traces")
	list := flag.Bool("list", false, "list targets")
	timeout := flag.Int("timeout", 0, "solver timeout (s)")
	noReplay := flag.Bool("noreplay", false, "do not run replays")
	axcheck := flag.String("axcheck", "", "validate the axioms of this spec file against the real path/filepath (bounded) and exit")
	emitParams := flag.Bool("emit-params", false, "print '<pkgdir>:<contract name>\\t<parameter names>' for every /repo function and exit (used by tools_gen_params.py)")
	flag.Parse()
	if *axcheck != "" {
		os.Setenv("GOVC_AXVERBOSE", "1")
		if n := runAxCheck(*axcheck, 7, 5); n > 0 {
			os.Exit(1)
		}
		return
	}
	if *emitParams {
		emitParamNames()
		return
	}
	if *tier == "" {
		*tier = "quick"
	}
	seed := 1
	if s := os.Getenv("VERIF_SEED"); s != "" {
		if v, err := strconv.Atoi(s); err == nil {
			seed = v
		}
	}
	start := time.Now()
	cfgs := map[string]*PropConfig{}
	data, err := os.ReadFile(filepath.Join(verifDir, "props.json"))
	if err != nil {
		fatal("%v", err)
	}
	if err := json.Unmarshal(data, &cfgs); err != nil {
		fatal("props.json: %v", err)
	}
	cfg := cfgs[*prop]
	if cfg == nil {
		fatal("unknown property %q", *prop)
	}
	axFailed := 0
	for _, f := range cfg.AxCheck {
		axFailed += runAxCheck(filepath.Join(verifDir, f), 6, 4)
	}
	lib := NewSpecLib()
	if err := lib.LoadAllSpecs(filepath.Join(verifDir, "specs")); err != nil {
		fatal("%v", err)
	}
	ld, err := Load(cfg.Packages, lib)
	if err != nil {
		fatal("%v", err)
	}
	loadS := time.Since(start).Seconds()
	ex := NewExec(ld.Prog, lib, *prop)
	ex.callSites = map[string][]string{}
	if os.Getenv("GOVC_DEBUG") != "" {
		ex.usedLocals = map[string]bool{}
	}
	ex.findSentinels()
	ex.findConstGlobals()
	ex.errs = append(ex.errs, lib.LintGhostFrames()...)
	if axFailed > 0 {
		ex.errs = append(ex.errs, fmt.Sprintf("%d assumed axiom(s) are false for the real library (see AXCHECK-FAILED lines): every proof that uses them is void", axFailed))
	}
	ex.ApplySchemas()
	ex.checkImmutable()
	fns := ex.targets(*only)
	if *list {
		for _, f := range fns {
			fmt.Println(funcKey(f), instName(f))
		}
		return
	}
	var reps []*FuncReport
	for _, fn := range fns {
		reps = append(reps, ex.verifyAll(fn)...)
	}
	if *only == "" {
		ex.lemmaObligations()
	}
	genS := time.Since(start).Seconds() - loadS
	tmo := cfg.TimeoutQ
	if *tier == "thorough" {
		tmo = cfg.TimeoutT
	}
	if tmo == 0 {
		tmo = 10
		if *tier == "thorough" {
			tmo = 60
		}
	}
	if *timeout > 0 {
		tmo = *timeout
	}
	smtDir := filepath.Join(verifDir, "out", "smt", *prop)
	os.RemoveAll(smtDir)
	tD := time.Now()
	ex.knownNames = map[string]bool{}
	for _, k := range loadKnown() {
		if k.Property == *prop && k.Status == "known" {
			ex.knownNames[k.Obligation] = true
		}
	}
	stats := ex.Discharge(smtDir, tmo, seed, 12, *tier == "thorough")
	if os.Getenv("GOVC_DEBUG") != "" {
		fmt.Fprintf(os.Stderr, "discharge took %.1fs\n", time.Since(tD).Seconds())
	}
	if os.Getenv("GOVC_DEBUG") != "" {
		for _, k := range sortedBoolKeys(ex.usedLocals) {
			fmt.Fprintf(os.Stderr, "local used by name: %s\n", k)
		}
		for k, v := range ex.inlineCount {
			if v > 200 {
				fmt.Fprintf(os.Stderr, "inlined %d times: %s\n", v, k)
			}
		}
		for _, r := range reps {
			fmt.Fprintf(os.Stderr, "paths=%d obls=%d %s %s\n", r.Paths, r.Obligations, r.Key, r.Inst)
		}
	}
	if *dump {
		for _, o := range ex.obls {
			fmt.Printf("%-8s %-10s %s  [%s %.2fs]\n", o.Status, o.Kind, o.Name, o.Solver, o.Seconds)
			if o.Status != "unsat" && o.Kind != "cover" {
				fmt.Printf("    clause: %s\n    goal: %s\n", o.Clause, truncate(o.Goal.S, 400))
				if o.Status == "unknown" {
					fmt.Printf("    solver output: %s\n", truncate(o.RawOut, 300))
				}
				for _, t := range o.Trace {
					fmt.Printf("      | %s\n", t)
				}
				for k, v := range o.Model {
					fmt.Printf("      model %s = %s\n", k, v)
				}
			}
		}
		for _, w := range sortedKeys(ex.warnings) {
			fmt.Println("warning:", w)
		}
	}
	code := ex.Report(cfg, *tier, seed, reps, stats, start, loadS, genS, tmo, *only != "", *noReplay)
	os.Exit(code)
}

func truncate(s string, n int) string {
	if len(s) > n {
		return s[:n] + "…"
	}
	return s
}

func fatal(f string, a ...interface{}) {
	fmt.Fprintf(os.Stderr, "govc: "+f+"\n", a...)
	os.Exit(2)
}

func sortedBoolKeys(m map[string]bool) []string {
	var ks []string
	for k := range m {
		ks = append(ks, k)
	}
	sort.Strings(ks)
	return ks
}

func joinLimited(xs []string, n int) string {
	if len(xs) > n {
		return strings.Join(xs[:n], ", ") + fmt.Sprintf(", … (%d more)", len(xs)-n)
	}
	return strings.Join(xs, ", ")
}

// emitParamNames lists, for every function of the packages that carry contracts, its parameter names (receiver first)
// under the name a "//@ func" line uses for it.
func emitParamNames() {
	lib := NewSpecLib()
	if err := lib.LoadAllSpecs(filepath.Join(verifDir, "specs")); err != nil {
		fatal("%v", err)
	}
	pkgs := []string{"./safecast", "./http", "./commonerrors", "./safeio", "./proc", "./filesystem", "./platform", "./hashing", "./retry",
		"./parallelisation", "./collection", "./collection/pagination", "./logs", "./subprocess"}
	ld, err := Load(pkgs, lib)
	if err != nil {
		fatal("%v", err)
	}
	for fn := range ssautil.AllFunctions(ld.Prog) {
		if !isRepoFunc(fn) || fn.Pkg == nil || fn.Synthetic != "" || (fn.Origin() != nil) {
			continue
		}
		key := funcKey(fn)
		pkgPath := fn.Pkg.Pkg.Path()
		dir := strings.TrimPrefix(pkgPath, "github.com/ARM-software/golang-utils/utils/")
		name := strings.Replace(key, pkgPath+".", "", 1)
		var ps []string
		for _, p := range fn.Params {
			n := p.Name()
			if n == "" {
				n = "_"
			}
			ps = append(ps, n)
		}
		fmt.Printf("%s:%s\t%s\n", dir, name, strings.Join(ps, " "))
	}
}
