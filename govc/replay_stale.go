package main

import (
	"fmt"
	"strings"
)

func init() { replayDrivers["isstale"] = replayIsStale }

// replayIsStale calls the real isStale with a time stamp that is the model's age (the value time.Since returned in the
// model) in the past - shifted by half a millisecond away from the threshold so that the few microseconds the call takes
// cannot change the verdict - and compares the answer with the statement: stale exactly when the age exceeds two periods.
func replayIsStale(ex *Exec, o *Obligation) (string, string, string, bool, error) {
	age, period := "", ""
	for k, v := range o.Model {
		if strings.HasPrefix(k, "sym:Since_r0") {
			if lit, err := goLiteral(v, "int64"); err == nil {
				age = lit
			}
		}
		if k == "in:beatPeriod" {
			if lit, err := goLiteral(v, "int64"); err == nil {
				period = lit
			}
		}
	}
	if age == "" || period == "" {
		return "", "", "", false, fmt.Errorf("model has no age / period")
	}
	src := fmt.Sprintf(`package filesystem

import (
	"testing"
	"time"
)

type verifFileTime struct{ mod time.Time }

func (f verifFileTime) ModTime() time.Time    { return f.mod }
func (f verifFileTime) AccessTime() time.Time { return f.mod }
func (f verifFileTime) ChangeTime() time.Time { return f.mod }
func (f verifFileTime) BirthTime() time.Time  { return f.mod }
func (f verifFileTime) HasChangeTime() bool   { return false }
func (f verifFileTime) HasBirthTime() bool    { return false }
func (f verifFileTime) HasAccessTime() bool   { return false }

func TestVerifReplay(t *testing.T) {
	age, period := time.Duration(%s), time.Duration(%s)
	if age < 0 || age > 24*time.Hour || period <= 0 {
		t.Skipf("NOT-REPRODUCED: model outside what can be staged (age %%v, period %%v)", age, period)
	}
	for _, a := range []time.Duration{age, age + 300*time.Microsecond} {
		got := isStale(verifFileTime{mod: time.Now().Add(-a)}, period)
		seen := a + 200*time.Microsecond // the call itself takes some microseconds
		switch {
		case got && seen <= 2*period:
			t.Fatalf("REPRODUCED: a sign of life %%v old is reported stale although two periods are %%v", a, 2*period)
		case !got && a >= 2*period+time.Millisecond:
			t.Fatalf("REPRODUCED: a sign of life %%v old is not reported stale although two periods are %%v", a, 2*period)
		}
	}
	t.Logf("NOT-REPRODUCED: age %%v, period %%v", age, period)
}
`, age, period)
	return "filesystem", src, "^TestVerifReplay$", false, nil
}
