package main

import (
	"go/token"
	"fmt"
	"go/constant"
	"go/types"
	"os"
	"path/filepath"
	"sort"
	"strings"

	"golang.org/x/tools/go/packages"
	"golang.org/x/tools/go/ssa"
	"golang.org/x/tools/go/ssa/ssautil"
)

// repoRoot is /repo unless GOVC_REPO points at a scratch copy (selftest only).
var repoRoot = func() string {
	if r := os.Getenv("GOVC_REPO"); r != "" {
		return r
	}
	return "/repo"
}()
var repoUtils = repoRoot + "/utils"

const modPath = "github.com/ARM-software/golang-utils/utils"

type Loaded struct {
	Prog *ssa.Program
	Pkgs []*ssa.Package
	Lib  *SpecLib
}

func findContractFiles() []string {
	var out []string
	filepath.Walk(repoUtils, func(p string, info os.FileInfo, err error) error {
		if err == nil && !info.IsDir() && info.Name() == "zz_contracts_verif.go" {
			out = append(out, p)
		}
		return nil
	})
	sort.Strings(out)
	return out
}

var basicNames = map[string]bool{"int": true, "int8": true, "int16": true, "int32": true, "int64": true, "uint": true, "uint8": true,
	"uint16": true, "uint32": true, "uint64": true, "float32": true, "float64": true, "string": true, "uintptr": true}

// instantiationOverlay builds, in memory only, a file that forces go/ssa to
// build the listed instances of generic functions (DESIGN §2.2). It adds named
// types verifNamed_<basic> for the "~basic" instantiations.
func instantiationOverlay(lib *SpecLib) map[string][]byte {
	byPkg := map[string][]*Instantiate{}
	for _, in := range lib.Insts {
		byPkg[in.Pkg] = append(byPkg[in.Pkg], in)
	}
	ov := map[string][]byte{}
	for pkg, ins := range byPkg {
		rel := strings.TrimPrefix(pkg, modPath+"/")
		dir := filepath.Join(repoUtils, rel)
		var b strings.Builder
		fmt.Fprintf(&b, "//go:build verif\n\npackage %s\n\n", filepath.Base(rel))
		named := map[string]bool{}
		n := 0
		for _, in := range ins {
			for _, t := range in.Types {
				tn := t
				if strings.HasPrefix(t, "~") {
					base := t[1:]
					tn = "verifNamed_" + base
					if !named[tn] {
						named[tn] = true
						fmt.Fprintf(&b, "type %s %s\n", tn, base)
					}
				}
				for _, f := range in.Funcs {
					n++
					fmt.Fprintf(&b, "var _ = %s[%s]\n", f, tn)
				}
			}
		}
		ov[filepath.Join(dir, "zz_instances_verif.go")] = []byte(b.String())
	}
	return ov
}

func Load(patterns []string, lib *SpecLib) (*Loaded, error) {
	for _, f := range findContractFiles() {
		rel, _ := filepath.Rel(repoUtils, filepath.Dir(f))
		if err := lib.LoadContractFile(f, modPath+"/"+filepath.ToSlash(rel)); err != nil {
			return nil, err
		}
	}
	lib.MergeTrusted()
	cfg := &packages.Config{Mode: packages.LoadAllSyntax, Dir: repoUtils, BuildFlags: []string{"-tags=verif"}, Overlay: instantiationOverlay(lib),
		Env: append(os.Environ(), "GOFLAGS=-mod=mod", "GOPROXY=off")}
	pkgs, err := packages.Load(cfg, patterns...)
	if err != nil {
		return nil, err
	}
	nerr := 0
	packages.Visit(pkgs, nil, func(p *packages.Package) {
		for _, e := range p.Errors {
			if strings.HasPrefix(p.PkgPath, modPath) {
				fmt.Fprintln(os.Stderr, "load error:", e)
				nerr++
			}
		}
	})
	if nerr > 0 {
		return nil, fmt.Errorf("%d errors loading %v", nerr, patterns)
	}
	prog, spkgs := ssautil.AllPackages(pkgs, ssa.NaiveForm|ssa.GlobalDebug|ssa.InstantiateGenerics)
	prog.Build()
	return &Loaded{Prog: prog, Pkgs: spkgs, Lib: lib}, nil
}

// ApplySchemas adds the clauses of every schema to the contracts of the functions
// whose key matches its pattern ('*' wildcard). Functions that only get schema
// clauses are still inlined at their call sites (flag inline).
func (ex *Exec) ApplySchemas() {
	if len(ex.lib.Schemas) == 0 {
		return
	}
	ex.computeReach()
	for fn := range ssautil.AllFunctions(ex.prog) {
		if len(fn.Blocks) == 0 || !isRepoFunc(fn) || fn.Parent() != nil || fn.Synthetic != "" {
			continue
		}
		key := funcKey(fn)
		for _, sc := range ex.lib.Schemas {
			if !globMatch(sc.Key, key) || !tagActive(sc.Tags, ex.prop) {
				continue
			}
			// "requires ctx" style filters: schema flag needs-param:<name>
			skip := false
			for fl := range sc.Flags {
				if fl == "needs-direct-backend" && !ex.hasDirectBackendOp(fn) {
					skip = true
				}
				if fl == "needs-backend" && !ex.reachBackend[key] {
					skip = true
				}
				if fl == "no-handle-result" {
					rs := fn.Signature.Results()
					for i := 0; i < rs.Len(); i++ {
						ts := rs.At(i).Type().String()
						if strings.HasSuffix(ts, ".File") || strings.HasSuffix(ts, "ReadCloser") || strings.HasSuffix(ts, "WriteCloser") || strings.Contains(ts, "zip.Reader") || strings.Contains(ts, "tar.Reader") || strings.HasSuffix(ts, ".ICloseableFS") || strings.HasSuffix(ts, ".FS") {
							skip = true
						}
					}
				}
				if fl == "needs-lasterr" {
					rs := fn.Signature.Results()
					if rs.Len() == 0 || !isErrorType(rs.At(rs.Len()-1).Type()) {
						skip = true
					}
				}
				if strings.HasPrefix(fl, "needs-param:") {
					want := strings.TrimPrefix(fl, "needs-param:")
					found := false
					for _, p := range fn.Params {
						if p.Name() == want {
							found = true
						}
					}
					if !found {
						skip = true
					}
				}
			}
			if skip {
				continue
			}
			c := ex.lib.Contracts[key]
			if c == nil {
				c = &Contract{Key: key, Flags: map[string]bool{}, File: sc.File, Line: sc.Line, PkgPath: sc.PkgPath, Synth: true}
				ex.lib.Contracts[key] = c
				if sc.Flags["transparent"] {
					// a schema of body obligations only (call-site assertions): a function that gets its contract from
					// this schema alone is still treated at call sites as one without contract (inlined when small)
					c.Flags["inline"] = true
				}
			} else if sc.Flags["transparent"] && c.Synth && !ex.hasActiveClause(c) {
				// ... also when a blanket schema without clauses gave it an (empty) contract first
				c.Flags["inline"] = true
			}
			for _, cl := range sc.Clauses {
				exempt := false
				for _, own := range c.Clauses {
					if own.Kind == "exempt" && tagActive(own.Tags, ex.prop) && own.Names[0] == cl.Label && cl.Label != "" {
						exempt = true
						ex.exemptions = append(ex.exemptions, fmt.Sprintf("%s is exempt from schema clause '%s': %s", shortKey(key), cl.Label, own.Text))
					}
				}
				if exempt {
					continue
				}
				cp := *cl
				cp.Schema = true
				if len(cp.Tags) == 0 {
					cp.Tags = sc.Tags
				}
				c.Clauses = append(c.Clauses, &cp)
			}
		}
	}
}

func globMatch(pat, s string) bool {
	parts := strings.Split(pat, "*")
	if len(parts) == 1 {
		return pat == s
	}
	if !strings.HasPrefix(s, parts[0]) {
		return false
	}
	s = s[len(parts[0]):]
	for i := 1; i < len(parts)-1; i++ {
		j := strings.Index(s, parts[i])
		if j < 0 {
			return false
		}
		s = s[j+len(parts[i]):]
	}
	return strings.HasSuffix(s, parts[len(parts)-1])
}

// findSentinels records package-level error variables that are initialised
// once in their package initialiser (errors.New, a composite value, or a copy
// of another sentinel) and never assigned elsewhere: they are treated as
// distinct constants; copies share the constant of their source.
func (ex *Exec) findSentinels() {
	errT := types.Universe.Lookup("error").Type()
	type initInfo struct {
		kind  string // new alias
		alias *ssa.Global
		text  string
	}
	infos := map[*ssa.Global]*initInfo{}
	bad := map[*ssa.Global]bool{}
	var resolveVal func(v ssa.Value, depth int) *initInfo
	resolveVal = func(v ssa.Value, depth int) *initInfo {
		if depth > 3 {
			return nil
		}
		switch x := v.(type) {
		case *ssa.Call:
			sc := x.Call.StaticCallee()
			if sc == nil {
				return nil
			}
			if sc.String() == "errors.New" {
				ii := &initInfo{kind: "new"}
				if k, ok := x.Call.Args[0].(*ssa.Const); ok && k.Value != nil && k.Value.Kind() == constant.String {
					ii.text = constant.StringVal(k.Value)
				}
				return ii
			}
			// func f() error { return otherpkg.ErrX }
			if len(sc.Blocks) == 1 && len(sc.Params) == 0 {
				for _, ins := range sc.Blocks[0].Instrs {
					if r, ok := ins.(*ssa.Return); ok && len(r.Results) == 1 {
						return resolveVal(r.Results[0], depth+1)
					}
				}
			}
		case *ssa.UnOp:
			if g, ok := x.X.(*ssa.Global); ok {
				return &initInfo{kind: "alias", alias: g}
			}
			if a, ok := x.X.(*ssa.Alloc); ok {
				// NaiveForm: result cell; find the single store into it
				if refs := a.Referrers(); refs != nil {
					for _, r := range *refs {
						if s, ok := r.(*ssa.Store); ok && s.Addr == a {
							return resolveVal(s.Val, depth+1)
						}
					}
				}
			}
		case *ssa.MakeInterface:
			return &initInfo{kind: "new"}
		}
		return nil
	}
	for fn := range ssautil.AllFunctions(ex.prog) {
		isInit := fn.Name() == "init" && fn.Synthetic != ""
		for _, b := range fn.Blocks {
			for _, ins := range b.Instrs {
				s, ok := ins.(*ssa.Store)
				if !ok {
					continue
				}
				g, ok := s.Addr.(*ssa.Global)
				if !ok || !types.Identical(derefType(g.Type()), errT) {
					continue
				}
				if !isInit || infos[g] != nil {
					bad[g] = true
					continue
				}
				if ii := resolveVal(s.Val, 0); ii != nil {
					infos[g] = ii
				} else {
					bad[g] = true
				}
			}
		}
	}
	var resolve func(g *ssa.Global, d int) *ssa.Global
	resolve = func(g *ssa.Global, d int) *ssa.Global {
		ii := infos[g]
		if ii == nil || bad[g] || d > 5 {
			return nil
		}
		if ii.kind == "new" {
			return g
		}
		return resolve(ii.alias, d+1)
	}
	for g := range infos {
		r := resolve(g, 0)
		if r == nil {
			continue
		}
		name := "sentinel!" + r.Pkg.Pkg.Name() + "." + r.Name()
		ex.sentinels[g] = &Term{S: name, Sort: SErr}
		if infos[r].text != "" {
			ex.sentinelText[name] = infos[r].text
		}
	}
}

// checkImmutable registers the heap keys of fields declared immutable and proves the
// declaration by a scan of the whole program: a store to such a field is allowed only
// through a pointer to an object allocated in the same function (construction).
// applyFrozen: dependency types declared frozen in a spec file - every field path (to depth 3) survives heap havoc.
func (ex *Exec) applyFrozen() {
	for _, f := range ex.lib.Frozen {
		i := strings.LastIndex(f, ".")
		if i < 0 {
			ex.errs = append(ex.errs, "bad frozen declaration "+f)
			continue
		}
		var named *types.Named
		for _, p := range ex.prog.AllPackages() {
			if p.Pkg.Path() == f[:i] {
				if t, ok := p.Members[f[i+1:]].(*ssa.Type); ok {
					named, _ = t.Type().(*types.Named)
				}
			}
		}
		if named == nil {
			continue // the package is not part of this property's program
		}
		var walk func(t types.Type, path []int, depth int)
		walk = func(t types.Type, path []int, depth int) {
			st, ok := t.Underlying().(*types.Struct)
			if !ok || depth > 3 {
				return
			}
			for k := 0; k < st.NumFields(); k++ {
				np := append(append([]int{}, path...), k)
				ex.immutableKeys[pathKey(named, np)] = true
				walk(st.Field(k).Type(), np, depth+1)
			}
		}
		walk(named, nil, 0)
	}
}

func (ex *Exec) checkImmutable() {
	ex.applyFrozen()
	if len(ex.lib.Immutable) == 0 {
		return
	}
	type fld struct {
		named *types.Named
		idx   int
	}
	var flds []fld
	for _, im := range ex.lib.Immutable {
		parts := strings.SplitN(im[1], ".", 2)
		if len(parts) != 2 {
			ex.errs = append(ex.errs, "bad immutable declaration "+im[1])
			continue
		}
		var pkg *ssa.Package
		for _, p := range ex.prog.AllPackages() {
			if p.Pkg.Path() == im[0] {
				pkg = p
			}
		}
		if pkg == nil {
			continue
		}
		t, ok := pkg.Members[parts[0]].(*ssa.Type)
		if !ok {
			ex.cerr("immutable: unknown type %s", parts[0])
			continue
		}
		named := t.Type().(*types.Named)
		st := structOf(named)
		found := false
		for i := 0; st != nil && i < st.NumFields(); i++ {
			if st.Field(i).Name() == parts[1] {
				flds = append(flds, fld{named, i})
				ex.immutableKeys[pathKey(named, []int{i})] = true
				found = true
			}
		}
		if !found {
			ex.cerr("immutable: unknown field %s", im[1])
		}
	}
	for fn := range ssautil.AllFunctions(ex.prog) {
		if !isRepoFunc(fn) {
			continue
		}
		for _, b := range fn.Blocks {
			for _, ins := range b.Instrs {
				s, ok := ins.(*ssa.Store)
				if !ok {
					continue
				}
				fa, ok := s.Addr.(*ssa.FieldAddr)
				if !ok {
					continue
				}
				for _, f := range flds {
					if fa.Field == f.idx && types.Identical(derefType(fa.X.Type()), f.named) {
						if _, isAlloc := fa.X.(*ssa.Alloc); !isAlloc {
							ex.errs = append(ex.errs, fmt.Sprintf("field %s.%s declared immutable is assigned in %s (%s)", f.named.Obj().Name(), structOf(f.named).Field(f.idx).Name(), fn.String(), ex.pos(s.Pos())))
						}
					}
				}
			}
		}
	}
}

// hasDirectBackendOp: the function (or a closure defined in it) contains a call of a
// callee whose contract carries the flag backend-op.
func (ex *Exec) hasDirectBackendOp(fn *ssa.Function) bool {
	var scan func(f *ssa.Function) bool
	scan = func(f *ssa.Function) bool {
		for _, b := range f.Blocks {
			for _, ins := range b.Instrs {
				ci, ok := ins.(ssa.CallInstruction)
				if !ok {
					continue
				}
				cc := ci.Common()
				key := ""
				if cc.IsInvoke() {
					key = cc.Method.FullName()
				} else if sc := cc.StaticCallee(); sc != nil {
					key = funcKey(sc)
				}
				if c := ex.lib.Contracts[key]; c != nil && c.Flags["backend-op"] {
					return true
				}
			}
		}
		for _, af := range f.AnonFuncs {
			if scan(af) {
				return true
			}
		}
		return false
	}
	return scan(fn)
}

// computeReach marks, for every /repo function, whether it may reach (transitively,
// through static calls, closures it defines and invocations on the filesystem
// interfaces, which resolve to *VFS) an operation flagged backend-op / mutating.
func (ex *Exec) computeReach() {
	type info struct{ backend, mutating bool }
	memo := map[*ssa.Function]*info{}
	var visit func(fn *ssa.Function) *info
	visit = func(fn *ssa.Function) *info {
		if in, ok := memo[fn]; ok {
			return in
		}
		in := &info{}
		memo[fn] = in
		if !isRepoFunc(fn) {
			return in
		}
		for _, b := range fn.Blocks {
			for _, ins := range b.Instrs {
				switch x := ins.(type) {
				case *ssa.MakeClosure:
					c := visit(x.Fn.(*ssa.Function))
					in.backend = in.backend || c.backend
					in.mutating = in.mutating || c.mutating
				case ssa.CallInstruction:
					cc := x.Common()
					if cc.IsInvoke() {
						key := cc.Method.FullName()
						if c := ex.lib.Contracts[key]; c != nil && c.Extern {
							in.backend = in.backend || c.Flags["backend-op"]
							in.mutating = in.mutating || c.Flags["mutating"]
							continue
						}
						if m := ex.dispatchMethod(cc.Value.Type(), cc.Method.Name()); m != nil {
							c := visit(m)
							in.backend = in.backend || c.backend
							in.mutating = in.mutating || c.mutating
						}
						continue
					}
					if sc := cc.StaticCallee(); sc != nil {
						if c := ex.lib.Contracts[funcKey(sc)]; c != nil && c.Extern {
							in.backend = in.backend || c.Flags["backend-op"]
							in.mutating = in.mutating || c.Flags["mutating"]
							continue
						}
						c := visit(sc)
						in.backend = in.backend || c.backend
						in.mutating = in.mutating || c.mutating
					}
				}
			}
		}
		return in
	}
	ex.reachBackend = map[string]bool{}
	ex.reachMutating = map[string]bool{}
	for fn := range ssautil.AllFunctions(ex.prog) {
		if isRepoFunc(fn) && fn.Parent() == nil && len(fn.Blocks) > 0 {
			in := visit(fn)
			// recursion: iterate once more so that cycles settle
			delete(memo, fn)
			in = visit(fn)
			if in.backend {
				ex.reachBackend[funcKey(fn)] = true
			}
			if in.mutating {
				ex.reachMutating[funcKey(fn)] = true
			}
		}
	}
}

func hasCtxParam(fn *ssa.Function) bool {
	for _, p := range fn.Params {
		if p.Name() == "ctx" {
			return true
		}
	}
	return false
}

// findConstGlobals: a package-level variable of /repo with a basic type that is assigned exactly once - in its
// package initialiser, with a constant or with the result of a parameterless /repo function whose body is
// "return <constant>" - and whose address is used for nothing but loads, has that constant value in every state.
// Derived from the code on every run (no assumption); used e.g. for subprocess.lineSep.
func (ex *Exec) findConstGlobals() {
	type use struct {
		stores int
		other  bool
		val    *ssa.Const
	}
	uses := map[*ssa.Global]*use{}
	get := func(g *ssa.Global) *use {
		u := uses[g]
		if u == nil {
			u = &use{}
			uses[g] = u
		}
		return u
	}
	var constOf func(v ssa.Value, depth int) *ssa.Const
	constOf = func(v ssa.Value, depth int) *ssa.Const {
		if depth > 3 {
			return nil
		}
		switch x := v.(type) {
		case *ssa.Const:
			return x
		case *ssa.Call:
			sc := x.Call.StaticCallee()
			if sc == nil || !isRepoFunc(sc) || len(sc.Params) != 0 || len(sc.Blocks) != 1 {
				return nil
			}
			// NaiveForm routes the result through a cell and sets up a defer stack: accept a single block whose only
			// effect is to store ONE constant into a local cell that is then returned
			var stored *ssa.Const
			n := 0
			for _, ins := range sc.Blocks[0].Instrs {
				switch r := ins.(type) {
				case *ssa.Alloc, *ssa.RunDefers, *ssa.DebugRef, *ssa.UnOp:
				case *ssa.Call:
					if r.Call.Value.Name() != "ssa:deferstack" {
						return nil
					}
				case *ssa.Store:
					if k, ok := r.Val.(*ssa.Const); ok {
						stored = k
						n++
					} else if c, ok := r.Val.(*ssa.Call); !ok || c.Call.Value.Name() != "ssa:deferstack" {
						return nil
					}
				case *ssa.Return:
					if len(r.Results) != 1 {
						return nil
					}
					if k, ok := r.Results[0].(*ssa.Const); ok {
						return k
					}
				default:
					return nil
				}
			}
			if n == 1 {
				return stored
			}
		}
		return nil
	}
	for fn := range ssautil.AllFunctions(ex.prog) {
		if !isRepoFunc(fn) {
			continue
		}
		isInit := fn.Name() == "init" && fn.Synthetic != ""
		for _, b := range fn.Blocks {
			for _, ins := range b.Instrs {
				if s, ok := ins.(*ssa.Store); ok {
					if g, ok := s.Addr.(*ssa.Global); ok {
						u := get(g)
						u.stores++
						if isInit {
							u.val = constOf(s.Val, 0)
						} else {
							u.other = true
						}
						// the stored value may itself mention another global
						if g2, ok := s.Val.(*ssa.Global); ok {
							get(g2).other = true
						}
						continue
					}
				}
				if uo, ok := ins.(*ssa.UnOp); ok && uo.Op == token.MUL {
					if _, ok := uo.X.(*ssa.Global); ok {
						continue // a load
					}
				}
				if _, ok := ins.(*ssa.DebugRef); ok {
					continue
				}
				var ops []*ssa.Value
				for _, op := range ins.Operands(ops) {
					if op != nil && *op != nil {
						if g, ok := (*op).(*ssa.Global); ok {
							get(g).other = true // address escapes or is written through
						}
					}
				}
			}
		}
	}
	for g, u := range uses {
		if u.other || u.stores != 1 || u.val == nil || g.Pkg == nil || strings.Contains(g.Name(), "$") {
			continue
		}
		if _, ok := derefType(g.Type()).Underlying().(*types.Basic); !ok {
			continue
		}
		if _, isSent := ex.sentinels[g]; isSent {
			continue
		}
		ex.constGlobals[g] = ex.constVal(u.val)
		if os.Getenv("GOVC_DEBUG") != "" {
			fmt.Fprintf(os.Stderr, "const global %s.%s = %s\n", g.Pkg.Pkg.Name(), g.Name(), u.val.Value.ExactString())
		}
		ex.derivedFacts = append(ex.derivedFacts, fmt.Sprintf("package variable %s.%s is assigned once, by its initialiser, the constant %s", g.Pkg.Pkg.Name(), g.Name(), u.val.Value.ExactString()))
	}
}

func (ex *Exec) hasActiveClause(c *Contract) bool {
	for _, cl := range c.Clauses {
		if tagActive(cl.Tags, ex.prop) && cl.Kind != "exempt" && cl.Kind != "params" && cl.Kind != "local" {
			return true
		}
	}
	return false
}
