package main

import (
	"fmt"
	"sort"
	"strings"
)

// builtinSyms are SMT-LIB symbols that never need a declaration.
var builtinSMT = map[string]bool{}

// Query renders one obligation as an SMT-LIB script: the goal is valid under
// the hypotheses iff the script is unsat.
func (ex *Exec) Query(o *Obligation, getModel bool) string {
	need := map[string]bool{}
	symbolsOf(o.Goal.S, need)
	for _, h := range o.Hyps {
		symbolsOf(h.S, need)
	}
	// close under definitions
	changed := true
	for changed {
		changed = false
		for n := range need {
			if d, ok := ex.defs[n]; ok && d.Body != "" {
				before := len(need)
				symbolsOf(d.Body, need)
				if len(need) != before {
					changed = true
				}
			}
			if sf, ok := ex.lib.Funs[n]; ok && sf.Body != "" {
				before := len(need)
				symbolsOf(sf.Body, need)
				if len(need) != before {
					changed = true
				}
			}
		}
		// axioms whose trigger symbols are all present pull in their other symbols
		for _, ax := range ex.lib.Axioms {
			if !tagActive(ax.Tags, ex.prop) {
				continue
			}
			if ex.axiomRelevant(ax, need) {
				before := len(need)
				symbolsOf(ax.Smt, need)
				if len(need) != before {
					changed = true
				}
			}
		}
	}
	// constants of error types (syscall.Errno values): distinct; Errno.Is matches only
	// itself and four os-level sentinels (source of syscall.Errno.Is) – an assumption
	var econsts []string
	for n := range need {
		if strings.HasPrefix(n, "econst!") {
			econsts = append(econsts, n)
		}
	}
	sort.Strings(econsts)
	if len(econsts) > 0 {
		for _, n := range []string{"sentinel!oserror.ErrPermission", "sentinel!oserror.ErrExist", "sentinel!oserror.ErrNotExist", "sentinel!errors.ErrUnsupported"} {
			need[n] = true
		}
	}
	var b strings.Builder
	b.WriteString("(set-option :produce-models true)\n(set-logic ALL)\n")
	usesErr := need["err_nil"] || need["is_"] || need["Err"] || len(econsts) > 0
	for n := range need {
		if d, ok := ex.defs[n]; ok && d.Sort == SErr {
			usesErr = true
		}
		if strings.HasPrefix(n, "sentinel!") {
			usesErr = true
		}
	}
	for _, s := range ex.lib.Sorts {
		fmt.Fprintf(&b, "(declare-sort %s 0)\n", s)
	}
	if usesErr {
		b.WriteString("(declare-sort Err 0)\n(declare-const err_nil Err)\n(declare-fun is_ (Err Err) Bool)\n")
		b.WriteString("(assert (forall ((e!q Err)) (! (is_ e!q e!q) :pattern ((is_ e!q e!q)))))\n")
		b.WriteString("(assert (forall ((e!q Err)) (! (= (is_ err_nil e!q) (= e!q err_nil)) :pattern ((is_ err_nil e!q)))))\n")
		b.WriteString("(assert (forall ((e!q Err)) (! (= (is_ e!q err_nil) (= e!q err_nil)) :pattern ((is_ e!q err_nil)))))\n")
		// sentinels
		var sents []string
		for n := range need {
			if strings.HasPrefix(n, "sentinel!") {
				sents = append(sents, n)
			}
		}
		sort.Strings(sents)
		for _, s := range sents {
			fmt.Fprintf(&b, "(declare-const %s Err)\n", s)
		}
		for _, s := range sents {
			// atomic errors (errors.New and the like): they match only themselves
			fmt.Fprintf(&b, "(assert (forall ((e!q Err)) (! (= (is_ %s e!q) (= e!q %s)) :pattern ((is_ %s e!q)))))\n", s, s, s)
		}
		for _, e := range econsts {
			fmt.Fprintf(&b, "(declare-const %s Err)\n", e)
			fmt.Fprintf(&b, "(assert (forall ((e!q Err)) (! (=> (is_ %s e!q) (or (= e!q %s) (= e!q sentinel!oserror.ErrPermission) (= e!q sentinel!oserror.ErrExist) (= e!q sentinel!oserror.ErrNotExist) (= e!q sentinel!errors.ErrUnsupported))) :pattern ((is_ %s e!q)))))\n", e, e, e)
		}
		if len(sents)+len(econsts) > 0 {
			fmt.Fprintf(&b, "(assert (distinct err_nil %s %s))\n", strings.Join(sents, " "), strings.Join(econsts, " "))
		}
	}
	// uninterpreted / defined spec functions in declaration order
	for _, n := range ex.lib.FunOrder {
		if !need[n] {
			continue
		}
		sf := ex.lib.Funs[n]
		if sf.Body == "" {
			fmt.Fprintf(&b, "(declare-fun %s (%s) %s)\n", sf.Name, strings.Join(sf.ArgSorts, " "), sf.Ret)
		}
	}
	for _, n := range ex.lib.FunOrder {
		if !need[n] {
			continue
		}
		sf := ex.lib.Funs[n]
		if sf.Body != "" {
			var ps []string
			for i := range sf.ArgNames {
				ps = append(ps, "("+sf.ArgNames[i]+" "+sf.ArgSorts[i]+")")
			}
			kw := "define-fun"
			if sf.Rec {
				kw = "define-fun-rec"
			}
			fmt.Fprintf(&b, "(%s %s (%s) %s %s)\n", kw, sf.Name, strings.Join(ps, " "), sf.Ret, sf.Body)
		}
	}
	// generated constants and definitions in creation order
	var ds []*Def
	for n := range need {
		if d, ok := ex.defs[n]; ok {
			ds = append(ds, d)
		}
	}
	sort.Slice(ds, func(i, j int) bool { return ds[i].Ord < ds[j].Ord })
	for _, d := range ds {
		if d.Body == "" {
			fmt.Fprintf(&b, "(declare-const %s %s)\n", d.Name, d.Sort)
		} else {
			fmt.Fprintf(&b, "(define-fun %s () %s %s)\n", d.Name, d.Sort, d.Body)
		}
	}
	for _, ax := range ex.lib.Axioms {
		if tagActive(ax.Tags, ex.prop) && ex.axiomRelevant(ax, need) {
			fmt.Fprintf(&b, "; axiom %s\n(assert %s)\n", ax.Name, ax.Smt)
		}
	}
	// texts of the sentinels (from their errors.New initialisers) and the images of
	// those constants under the pure string functions (computed with the real stdlib)
	if need["errtext"] {
		var ns []string
		for n := range need {
			if _, ok := ex.sentinelText[n]; ok {
				ns = append(ns, n)
			}
		}
		sort.Strings(ns)
		for _, n := range ns {
			txt := ex.sentinelText[n]
			fmt.Fprintf(&b, "(assert (= (errtext %s) %s))\n", n, StrConst(txt).S)
			if need["str_tolower"] {
				fmt.Fprintf(&b, "(assert (= (str_tolower %s) %s))\n", StrConst(txt).S, StrConst(strings.ToLower(txt)).S)
			}
			if need["str_trimspace"] {
				fmt.Fprintf(&b, "(assert (= (str_trimspace %s) %s))\n", StrConst(txt).S, StrConst(strings.TrimSpace(txt)).S)
			}
		}
	}
	for _, h := range o.Hyps {
		fmt.Fprintf(&b, "(assert %s)\n", h.S)
	}
	fmt.Fprintf(&b, "; goal: %s\n(assert (not %s))\n(check-sat)\n", o.Name, o.Goal.S)
	if getModel {
		var vs []string
		if o.Vars == nil {
			o.Vars = map[string]*Term{}
		}
		// every scalar constant of the cone is part of the model handed to replay drivers
		nsym := 0
		for _, d := range ds {
			if d.Body == "" && nsym < 60 && (isBV(d.Sort) || isFP(d.Sort) || d.Sort == SString || d.Sort == SBool || d.Sort == SInt) {
				if _, dup := o.Vars["sym:"+d.Name]; !dup {
					o.Vars["sym:"+d.Name] = &Term{S: d.Name, Sort: d.Sort}
					nsym++
				}
			}
		}
		for _, k := range sortedKeys(o.Vars) {
			vs = append(vs, o.Vars[k].S)
		}
		if len(vs) > 0 {
			fmt.Fprintf(&b, "(get-value (%s))\n", strings.Join(vs, " "))
		}
	}
	return b.String()
}

// axiomRelevant: an axiom is included when every spec function it mentions
// that is declared in the library is already needed (so axioms never drag in
// unrelated theories), or when it is marked by name as always-on.
func (ex *Exec) axiomRelevant(ax *Axiom, need map[string]bool) bool {
	syms := map[string]bool{}
	symbolsOf(ax.Smt, syms)
	any := false
	for s := range syms {
		if _, ok := ex.lib.Funs[s]; ok {
			if !need[s] {
				return false
			}
			any = true
		}
	}
	return any
}
