package main

func init() { replayDrivers["logstreamer-split"] = replayLogStreamerSplit }

// replayLogStreamerSplit: one output line delivered by the pipe in two reads must reach the logger as one message.
func replayLogStreamerSplit(ex *Exec, o *Obligation) (string, string, string, bool, error) {
	src := `package subprocess

import (
	"context"
	"strings"
	"testing"

	"github.com/ARM-software/golang-utils/utils/logs"
)

func TestVerifReplay(t *testing.T) {
	l, err := logs.NewPlainStringLogger()
	if err != nil {
		t.Fatal(err)
	}
	w := newOutStreamer(context.Background(), l)
	_, _ = w.Write([]byte("hello wo"))
	_, _ = w.Write([]byte("rld\nbye\n"))
	var got []string
	for _, m := range strings.Split(l.GetLogContent(), "\n") {
		if strings.TrimSpace(m) != "" {
			got = append(got, strings.TrimSpace(m))
		}
	}
	if len(got) != 2 || got[0] != "hello world" || got[1] != "bye" {
		t.Fatalf("REPRODUCED: the child wrote the lines [hello world, bye] (first one split across two pipe reads); the logger received %q", got)
	}
	t.Logf("NOT-REPRODUCED: %q", got)
}
`
	return "subprocess", src, "^TestVerifReplay$", false, nil
}
