package main

import (
	"fmt"
	"go/token"
	"go/types"
	"math/big"
	"strings"

	"golang.org/x/tools/go/ssa"
)

// step executes one straight-line instruction.
func (ex *Exec) step(fr *Frame, st *State, ins ssa.Instruction) {
	switch x := ins.(type) {
	case *ssa.DebugRef:
	case *ssa.Alloc:
		ex.ncell++
		c := &Cell{ID: ex.ncell, Name: x.Comment, T: derefType(x.Type())}
		if c.Name == "" {
			c.Name = x.Name()
		}
		if ex.info(fr.fn).Escaping[x] {
			c.Escaped = false // escaping is decided when the pointer is really handed out
		}
		st.cells[c] = ex.zeroVal(c.T)
		fr.env[x] = &Ptr{Cell: c}
	case *ssa.Store:
		p, ok := ex.val(fr, st, x.Addr).(*Ptr)
		if !ok {
			st.unsupp = append(st.unsupp, "store through non-pointer")
			return
		}
		ex.nilCheck(fr, st, p, x.Pos())
		ex.guardedAccess(fr, st, p, 2, "assignment", x.Pos())
		ex.guardedOwned(fr, st, p, x)
		ex.storeTo(st, p, ex.val(fr, st, x.Val))
	case *ssa.UnOp:
		fr.env[x] = ex.unop(fr, st, x)
	case *ssa.BinOp:
		fr.env[x] = ex.binop(fr, st, x.Op, ex.val(fr, st, x.X), ex.val(fr, st, x.Y), x.X.Type(), x.Y.Type(), x)
	case *ssa.Extract:
		tv, ok := ex.val(fr, st, x.Tuple).(*TupleV)
		if ok && x.Index < len(tv.E) {
			fr.env[x] = tv.E[x.Index]
		} else {
			fr.env[x] = ex.freshVal(st, x.Type(), "extract")
		}
	case *ssa.FieldAddr:
		p, ok := ex.val(fr, st, x.X).(*Ptr)
		if !ok {
			fr.env[x] = ex.freshVal(st, x.Type(), "fieldaddr")
			return
		}
		np := *p
		np.Path = append(append([]int(nil), p.Path...), x.Field)
		fr.env[x] = &np
	case *ssa.Field:
		sv, ok := ex.val(fr, st, x.X).(*StructV)
		if ok && x.Field < len(sv.F) {
			fr.env[x] = sv.F[x.Field]
		} else {
			fr.env[x] = ex.freshVal(st, x.Type(), "field")
		}
	case *ssa.IndexAddr:
		base := ex.val(fr, st, x.X)
		idx, _ := ex.val(fr, st, x.Index).(*Term)
		if idx == nil {
			idx = ex.freshTerm("idx", bvSort(64), true)
		}
		idx = toIndex(idx)
		switch b := base.(type) {
		case *Ptr: // pointer to array
			if k, ok := constBV(idx); ok {
				np := *b
				np.Path = append(append([]int(nil), b.Path...), int(k))
				fr.env[x] = &np
				return
			}
			st.unsupp = append(st.unsupp, "symbolic index into array")
			fr.env[x] = &Ptr{Ref: ex.freshTerm("elemptr", SRef, false), Root: derefType(x.Type())}
		case *SliceV:
			ex.boundsCheck(fr, st, idx, b.Len, x.Pos())
			fr.env[x] = &Ptr{Sl: b, Idx: idx}
		default:
			fr.env[x] = &Ptr{Ref: ex.freshTerm("elemptr", SRef, false), Root: derefType(x.Type())}
		}
	case *ssa.Index:
		base := ex.val(fr, st, x.X)
		idx, _ := ex.val(fr, st, x.Index).(*Term)
		switch b := base.(type) {
		case *ArrayV:
			if idx != nil {
				if k, ok := constBV(toIndex(idx)); ok && int(k) < len(b.E) {
					fr.env[x] = b.E[k]
					return
				}
			}
		case *Term:
			if b.Sort == SString && idx != nil {
				// s[i]: byte
				ch := &Term{S: fmt.Sprintf("((_ int2bv 8) (str.to_code (str.at %s (bv2nat %s))))", b.S, toIndex(idx).S), Sort: bvSort(8)}
				fr.env[x] = ch
				return
			}
		}
		fr.env[x] = ex.freshVal(st, x.Type(), "index")
	case *ssa.MakeInterface:
		iv := &IfaceV{Dyn: x.X.Type(), V: ex.val(fr, st, x.X)}
		ex.guardedEscape(fr, st, iv.V, "converted to "+shortType(x.Type()), x.Pos())
		if c, ok := x.X.(*ssa.Const); ok && c.Value != nil && implementsError(x.X.Type()) {
			// a constant of an error type (syscall.ESRCH): one distinct constant per value
			iv.Sym = errConstSym(x.X.Type(), c.Value.ExactString())
		}
		fr.env[x] = iv
	case *ssa.ChangeInterface:
		fr.env[x] = ex.val(fr, st, x.X)
	case *ssa.ChangeType:
		fr.env[x] = ex.val(fr, st, x.X)
	case *ssa.Convert:
		fr.env[x] = ex.convert(fr, st, ex.val(fr, st, x.X), x.X.Type(), x.Type(), x.Pos())
	case *ssa.MultiConvert:
		fr.env[x] = ex.convert(fr, st, ex.val(fr, st, x.X), x.X.Type(), x.Type(), x.Pos())
	case *ssa.TypeAssert:
		fr.env[x] = ex.typeAssert(fr, st, x)
	case *ssa.MakeClosure:
		fv := &FuncV{Fn: x.Fn.(*ssa.Function)}
		for _, b := range x.Bindings {
			v := ex.val(fr, st, b)
			fv.Bind = append(fv.Bind, v)
		}
		fr.env[x] = fv
	case *ssa.Slice:
		fr.env[x] = ex.sliceOp(fr, st, x)
	case *ssa.MakeSlice:
		ln, _ := ex.val(fr, st, x.Len).(*Term)
		if ln == nil {
			ln = ex.freshTerm("len", bvSort(64), true)
		}
		ex.ncell++
		el := x.Type().Underlying().(*types.Slice).Elem()
		sl := &SliceV{Elem: el, Len: Extend(ln, 64, true), Back: IntConst(int64(-ex.ncell))}
		key, as := sliceKey(el)
		zero := &Term{S: fmt.Sprintf("((as const %s) %s)", as, ex.zeroTermOfSort(elemSort(el)).S), Sort: as}
		st.heap[key] = store(ex.heapArrE(st, key, as), sl.Back, zero)
		fr.env[x] = sl
	case *ssa.MakeMap:
		ex.ncell++
		mt := x.Type().Underlying().(*types.Map)
		fr.env[x] = &MapV{Sym: IntConst(int64(-ex.ncell)), K: mt.Key(), V: mt.Elem()}
	case *ssa.MakeChan:
		ex.ncell++
		fr.env[x] = IntConst(int64(-ex.ncell))
	case *ssa.MapUpdate:
		// assert site "@builtin.mapupdate": b0 the map, b1 the key, b2 the value
		ex.checkAsserts(fr, st, "builtin.mapupdate", []string{"b0", "b1", "b2"}, []types.Type{x.Map.Type(), x.Key.Type(), x.Value.Type()},
			[]Val{ex.val(fr, st, x.Map), ex.val(fr, st, x.Key), ex.val(fr, st, x.Value)}, x.Pos())
		ex.mapUpdate(fr, st, x)
	case *ssa.Lookup:
		fr.env[x] = ex.lookup(fr, st, x)
	case *ssa.Phi:
		for i, p := range x.Block().Preds {
			if p == fr.prev {
				fr.env[x] = ex.val(fr, st, x.Edges[i])
				return
			}
		}
		fr.env[x] = ex.freshVal(st, x.Type(), "phi")
	case *ssa.Range:
		fr.env[x] = ex.val(fr, st, x.X)
	case *ssa.Next:
		// (ok, k, v) nondeterministic
		tv := &TupleV{}
		tv.E = append(tv.E, ex.freshTerm("next_ok", SBool, false))
		tup := x.Type().(*types.Tuple)
		for i := 1; i < tup.Len(); i++ {
			tv.E = append(tv.E, ex.freshVal(st, tup.At(i).Type(), "next"))
		}
		fr.env[x] = tv
	case *ssa.Send:
		st.Tracef("%s: channel send (not modelled)", ex.pos(x.Pos()))
	case *ssa.SliceToArrayPointer:
		fr.env[x] = ex.freshVal(st, x.Type(), "s2a")
	default:
		ex.warn("unsupported instruction %T in %s", ins, fr.fn.String())
		if v, ok := ins.(ssa.Value); ok {
			fr.env[v] = ex.freshVal(st, v.Type(), "unsupported")
		}
	}
}

func toIndex(t *Term) *Term {
	if isBV(t.Sort) && bvBits(t.Sort) != 64 {
		return Extend(t, 64, true)
	}
	return t
}

func (ex *Exec) safetyOn(fr *Frame) bool {
	c := ex.lib.Contracts[ex.curKey]
	return c != nil && c.Flags["safety"] && fr.depth == 0
}

func (ex *Exec) nilCheck(fr *Frame, st *State, p *Ptr, pos token.Pos) {
	if p.Ref == nil || !ex.safetyOn(fr) {
		return
	}
	ex.addObl(st, "safety", ex.oblName("safety", "#nil@"+ex.pos(pos)), Not(Eq(p.Ref, IntConst(0))), pos, "nil dereference")
}

func (ex *Exec) boundsCheck(fr *Frame, st *State, idx, ln *Term, pos token.Pos) {
	if !ex.safetyOn(fr) {
		return
	}
	g := And(app(SBool, "bvsge", idx, BVInt(0, 64, true)), app(SBool, "bvslt", idx, ln))
	ex.addObl(st, "safety", ex.oblName("safety", "#index"), g, pos, "index in range")
}

func (ex *Exec) unop(fr *Frame, st *State, x *ssa.UnOp) Val {
	v := ex.val(fr, st, x.X)
	switch x.Op {
	case token.MUL: // load
		p, ok := v.(*Ptr)
		if !ok {
			return ex.freshVal(st, x.Type(), "load")
		}
		ex.nilCheck(fr, st, p, x.Pos())
		ex.guardedAccess(fr, st, p, 1, "load", x.Pos())
		return ex.load(st, p, x.Type())
	case token.NOT:
		if t, ok := v.(*Term); ok {
			return Not(t)
		}
	case token.SUB:
		if t, ok := v.(*Term); ok {
			if isBV(t.Sort) {
				r := app(t.Sort, "bvneg", t)
				r.Signed = t.Signed
				return r
			}
			if isFP(t.Sort) {
				return app(t.Sort, "fp.neg", t)
			}
		}
	case token.XOR:
		if t, ok := v.(*Term); ok && isBV(t.Sort) {
			r := app(t.Sort, "bvnot", t)
			r.Signed = t.Signed
			return r
		}
	case token.ARROW:
		st.Tracef("%s: channel receive (fresh value)", ex.pos(x.Pos()))
		if x.CommaOk {
			return &TupleV{E: []Val{ex.freshVal(st, x.Type().(*types.Tuple).At(0).Type(), "recv"), ex.freshTerm("recvok", SBool, false)}}
		}
		rv := ex.freshVal(st, x.Type(), "recv")
		ex.noteRecv(st, x.Type(), rv)
		return rv
	}
	return ex.freshVal(st, x.Type(), "unop")
}

func isUnsignedType(t types.Type) bool {
	if b, ok := t.Underlying().(*types.Basic); ok {
		return b.Info()&types.IsUnsigned != 0
	}
	return false
}

func (ex *Exec) binop(fr *Frame, st *State, op token.Token, a, b Val, ta, tb types.Type, at ssa.Value) Val {
	// comparisons of non scalar values
	switch op {
	case token.EQL, token.NEQ:
		eq := ex.valEq(st, a, b, ta)
		if eq == nil {
			eq = ex.freshTerm("eq", SBool, false)
		}
		if op == token.NEQ {
			return Not(eq)
		}
		return eq
	}
	x, ok1 := a.(*Term)
	y, ok2 := b.(*Term)
	if !ok1 || !ok2 {
		var rt types.Type = types.Typ[types.Bool]
		if at != nil {
			rt = at.Type()
		}
		return ex.freshVal(st, rt, "binop")
	}
	signed := !isUnsignedType(ta)
	if isBV(x.Sort) && x.Sort == y.Sort {
		if r := foldBV(op, x, y, signed); r != nil {
			return r
		}
	}
	switch {
	case isBV(x.Sort):
		w := bvBits(x.Sort)
		mkr := func(o string) *Term { r := app(x.Sort, o, x, y); r.Signed = signed; return ex.define("t", r) }
		cmp := func(so, uo string) *Term {
			if signed {
				return app(SBool, so, x, y)
			}
			return app(SBool, uo, x, y)
		}
		switch op {
		case token.ADD:
			return mkr("bvadd")
		case token.SUB:
			return mkr("bvsub")
		case token.MUL:
			return mkr("bvmul")
		case token.QUO:
			if ex.safetyOn(fr) {
				ex.addObl(st, "safety", ex.oblName("safety", "#div0"), Not(Eq(y, BVInt(0, w, signed))), at.Pos(), "division by zero")
			}
			if signed {
				return mkr("bvsdiv")
			}
			return mkr("bvudiv")
		case token.REM:
			if signed {
				return mkr("bvsrem")
			}
			return mkr("bvurem")
		case token.AND:
			return mkr("bvand")
		case token.OR:
			return mkr("bvor")
		case token.XOR:
			return mkr("bvxor")
		case token.AND_NOT:
			r := app(x.Sort, "bvand", x, app(x.Sort, "bvnot", y))
			r.Signed = signed
			return r
		case token.SHL, token.SHR:
			// shift count: unsigned of any width
			cw := bvBits(y.Sort)
			var cnt *Term
			var big *Term = TFalse
			switch {
			case cw == w:
				cnt = y
			case cw < w:
				cnt = &Term{S: fmt.Sprintf("((_ zero_extend %d) %s)", w-cw, y.S), Sort: x.Sort}
			default:
				cnt = &Term{S: fmt.Sprintf("((_ extract %d 0) %s)", w-1, y.S), Sort: x.Sort}
				big = app(SBool, "bvuge", y, BVInt(int64(w), cw, false))
			}
			var r *Term
			if op == token.SHL {
				r = Ite(big, BVInt(0, w, signed), app(x.Sort, "bvshl", x, cnt))
			} else if signed {
				r = Ite(big, app(x.Sort, "bvashr", x, BVInt(int64(w-1), w, false)), app(x.Sort, "bvashr", x, cnt))
			} else {
				r = Ite(big, BVInt(0, w, signed), app(x.Sort, "bvlshr", x, cnt))
			}
			r.Signed = signed
			return ex.define("t", r)
		case token.LSS:
			return cmp("bvslt", "bvult")
		case token.LEQ:
			return cmp("bvsle", "bvule")
		case token.GTR:
			return cmp("bvsgt", "bvugt")
		case token.GEQ:
			return cmp("bvsge", "bvuge")
		}
	case isFP(x.Sort):
		ar := func(o string) *Term {
			return ex.define("t", &Term{S: fmt.Sprintf("(%s RNE %s %s)", o, x.S, y.S), Sort: x.Sort})
		}
		switch op {
		case token.ADD:
			return ar("fp.add")
		case token.SUB:
			return ar("fp.sub")
		case token.MUL:
			return ar("fp.mul")
		case token.QUO:
			return ar("fp.div")
		case token.LSS:
			return app(SBool, "fp.lt", x, y)
		case token.LEQ:
			return app(SBool, "fp.leq", x, y)
		case token.GTR:
			return app(SBool, "fp.gt", x, y)
		case token.GEQ:
			return app(SBool, "fp.geq", x, y)
		}
	case x.Sort == SString:
		switch op {
		case token.ADD:
			return ex.define("t", app(SString, "str.++", x, y))
		case token.LSS:
			return app(SBool, "str.<", x, y)
		case token.LEQ:
			return app(SBool, "str.<=", x, y)
		case token.GTR:
			return app(SBool, "str.<", y, x)
		case token.GEQ:
			return app(SBool, "str.<=", y, x)
		}
	case x.Sort == SBool:
		switch op {
		case token.AND, token.LAND:
			return And(x, y)
		case token.OR, token.LOR:
			return Or(x, y)
		}
	}
	var rt types.Type = types.Typ[types.Bool]
	if at != nil {
		rt = at.Type()
	}
	st.unsupp = append(st.unsupp, "binop "+op.String())
	return ex.freshVal(st, rt, "binop")
}

// valEq builds equality between two Go values of static type t.
func (ex *Exec) valEq(st *State, a, b Val, t types.Type) *Term {
	switch x := a.(type) {
	case *Term:
		if y, ok := b.(*Term); ok && x.Sort == y.Sort {
			return Eq(x, y)
		}
	case *Ptr:
		y, ok := b.(*Ptr)
		if !ok {
			return nil
		}
		if x.Cell != nil && y.Cell != nil {
			if x.Cell == y.Cell && fmt.Sprint(x.Path) == fmt.Sprint(y.Path) {
				return TTrue
			}
			return TFalse
		}
		if (x.Cell != nil) != (y.Cell != nil) {
			// a local cell never equals nil nor a pointer that existed before it
			return TFalse
		}
		tx, ty := ex.asTerm(st, x), ex.asTerm(st, y)
		if tx != nil && ty != nil {
			return Eq(tx, ty)
		}
	case *IfaceV:
		y, ok := b.(*IfaceV)
		if !ok {
			return nil
		}
		if x.Nil && y.Nil {
			return TTrue
		}
		if x.Nil || y.Nil {
			o := y
			if y.Nil {
				o = x
			}
			if o.Dyn != nil {
				return TFalse
			}
			if o.Sym.Sort == SErr {
				return Eq(o.Sym, errNil)
			}
			return Eq(o.Sym, IntConst(0))
		}
		if x.Dyn != nil && y.Dyn != nil && x.Sym == nil && y.Sym == nil {
			if !types.Identical(x.Dyn, y.Dyn) {
				return TFalse
			}
			return ex.valEq(st, x.V, y.V, x.Dyn)
		}
		sort := SRef
		if (x.Sym != nil && x.Sym.Sort == SErr) || (y.Sym != nil && y.Sym.Sort == SErr) {
			sort = SErr
		}
		return Eq(ex.ifaceTerm(st, x, sort), ex.ifaceTerm(st, y, sort))
	case *SliceV:
		// in Go only comparison with nil is legal; contracts also compare two slice values (same backing store and length)
		if y, ok := b.(*SliceV); ok {
			zero := BVInt(0, 64, true).S
			if x.Back.S == "0" && x.Len.S == zero {
				return Eq(y.Back, IntConst(0))
			}
			if y.Back.S == "0" && y.Len.S == zero {
				return Eq(x.Back, IntConst(0))
			}
			return And(Eq(x.Back, y.Back), Eq(x.Len, y.Len))
		}
	case *MapV:
		if y, ok := b.(*MapV); ok {
			return Eq(x.Sym, y.Sym)
		}
	case *FuncV:
		if y, ok := b.(*FuncV); ok {
			if x.Fn != nil || y.Fn != nil {
				if x.Fn != nil && y.Fn != nil {
					return nil
				}
				return TFalse // a concrete function is not nil
			}
			return Eq(x.Sym, y.Sym)
		}
	case *StructV:
		if y, ok := b.(*StructV); ok && len(x.F) == len(y.F) {
			var cs []*Term
			su := structOf(x.T)
			for i := range x.F {
				var ft types.Type
				if su != nil {
					ft = su.Field(i).Type()
				}
				c := ex.valEq(st, x.F[i], y.F[i], ft)
				if c == nil {
					return nil
				}
				cs = append(cs, c)
			}
			return And(cs...)
		}
	}
	return nil
}

func (ex *Exec) typeAssert(fr *Frame, st *State, x *ssa.TypeAssert) Val {
	v := ex.val(fr, st, x.X)
	iv, _ := v.(*IfaceV)
	mkRes := func(ok *Term, val Val) Val {
		if x.CommaOk {
			return &TupleV{E: []Val{val, ok}}
		}
		return val
	}
	if iv != nil && iv.Nil {
		if !x.CommaOk {
			st.Tracef("%s: type assertion on nil interface panics", ex.pos(x.Pos()))
			st.dead = true
			return nil
		}
		return mkRes(TFalse, ex.zeroVal(x.AssertedType))
	}
	if iv != nil && iv.Dyn != nil {
		var holds bool
		if it, ok := x.AssertedType.Underlying().(*types.Interface); ok {
			holds = types.Implements(iv.Dyn, it)
			if holds {
				return mkRes(TTrue, iv)
			}
		} else {
			holds = types.Identical(iv.Dyn, x.AssertedType)
			if holds {
				return mkRes(TTrue, iv.V)
			}
		}
		if !x.CommaOk {
			st.Tracef("%s: type assertion fails (panic)", ex.pos(x.Pos()))
			st.dead = true
			return nil
		}
		return mkRes(TFalse, ex.zeroVal(x.AssertedType))
	}
	// symbolic dynamic type
	okT := ex.freshTerm("assert_ok", SBool, false)
	if iv != nil && iv.Sym != nil {
		// the outcome is a function of the value and the asserted type
		okT = app(SBool, "dyn_is_"+sanitizeName(shortType(x.AssertedType)), iv.Sym)
		ex.declareUF("dyn_is_"+sanitizeName(shortType(x.AssertedType)), []string{iv.Sym.Sort}, SBool)
	}
	var res Val
	if _, ok := x.AssertedType.Underlying().(*types.Interface); ok && iv != nil {
		res = iv
	} else {
		res = ex.freshVal(st, x.AssertedType, "asserted")
	}
	if !x.CommaOk {
		st.Assume(okT)
		if iv != nil && iv.Sym != nil {
			if iv.Sym.Sort == SErr {
				st.Assume(Not(Eq(iv.Sym, errNil)))
			}
		}
		return res
	}
	return mkRes(okT, res)
}

func (ex *Exec) declareUF(name string, args []string, ret string) {
	if _, ok := ex.lib.Funs[name]; ok {
		return
	}
	ex.lib.Funs[name] = &SpecFun{Name: name, ArgSorts: args, Ret: ret}
	ex.lib.FunOrder = append(ex.lib.FunOrder, name)
}

func (ex *Exec) sliceOp(fr *Frame, st *State, x *ssa.Slice) Val {
	base := ex.val(fr, st, x.X)
	var lo, hi *Term
	if x.Low != nil {
		lo, _ = ex.val(fr, st, x.Low).(*Term)
		if lo != nil {
			lo = toIndex(lo)
		}
	}
	if x.High != nil {
		hi, _ = ex.val(fr, st, x.High).(*Term)
		if hi != nil {
			hi = toIndex(hi)
		}
	}
	switch b := base.(type) {
	case *Ptr: // pointer to array
		at, ok := derefType(x.X.Type()).Underlying().(*types.Array)
		if ok {
			off := 0
			if lo != nil {
				k, c := constBV(lo)
				if !c {
					break
				}
				off = int(k)
			}
			n := at.Len() - int64(off)
			if hi != nil {
				k, c := constBV(hi)
				if !c {
					break
				}
				n = k - int64(off)
			}
			return &SliceV{Elem: at.Elem(), Len: BVInt(n, 64, true), Back: IntConst(0), ArrPtr: b, Off: off}
		}
	case *SliceV:
		if lo == nil && hi == nil {
			return b
		}
		if b.ArrPtr != nil {
			if (lo == nil || isConstBV(lo)) && (hi == nil || isConstBV(hi)) {
				off := b.Off
				n, _ := constBV(b.Len)
				if lo != nil {
					k, _ := constBV(lo)
					off += int(k)
					n -= k
				}
				if hi != nil {
					k, _ := constBV(hi)
					lk := int64(0)
					if lo != nil {
						lk, _ = constBV(lo)
					}
					n = k - lk
				}
				return &SliceV{Elem: b.Elem, Len: BVInt(n, 64, true), Back: b.Back, ArrPtr: b.ArrPtr, Off: off}
			}
			b = ex.sliceToHeap(st, b)
		}
		// s[lo:hi] – a new view; contents copied (value semantics, aliasing with the original not modelled)
		l := BVInt(0, 64, true)
		if lo != nil {
			l = lo
		}
		h := b.Len
		if hi != nil {
			h = hi
		}
		if l.S == BVInt(0, 64, true).S {
			return &SliceV{Elem: b.Elem, Len: h, Back: b.Back}
		}
		ex.ncell++
		ns := &SliceV{Elem: b.Elem, Len: ex.define("len", mk(bvSort(64), true, "(bvsub %s %s)", h.S, l.S)), Back: IntConst(int64(-ex.ncell))}
		key, as := sliceKey(b.Elem)
		es := elemSort(b.Elem)
		src := ex.sliceArr(st, b)
		shifted := ex.declare("subslice", as)
		// forall i. shifted[i] = src[i+lo]
		st.Assume(&Term{S: fmt.Sprintf("(forall ((i!q (_ BitVec 64))) (! (= (select %s i!q) (select %s (bvadd i!q %s))) :pattern ((select %s i!q))))", shifted.S, src.S, l.S, shifted.S), Sort: SBool})
		_ = es
		st.heap[key] = store(ex.heapArrE(st, key, as), ns.Back, shifted)
		return ns
	case *Term:
		if b.Sort == SString {
			l := "0"
			if lo != nil {
				l = "(bv2nat " + lo.S + ")"
			}
			var n string
			if hi != nil {
				n = "(- (bv2nat " + hi.S + ") " + l + ")"
			} else {
				n = "(- (str.len " + b.S + ") " + l + ")"
			}
			return ex.define("substr", &Term{S: fmt.Sprintf("(str.substr %s %s %s)", b.S, l, n), Sort: SString})
		}
	}
	st.unsupp = append(st.unsupp, "slice expression")
	return ex.freshVal(st, x.Type(), "slice")
}

func isConstBV(t *Term) bool { _, ok := constBV(t); return ok }

func (ex *Exec) mapUpdate(fr *Frame, st *State, x *ssa.MapUpdate) {
	m, ok := ex.val(fr, st, x.Map).(*MapV)
	if !ok {
		return
	}
	ks, vs := elemSort(m.K), elemSort(m.V)
	k := ex.coerce(st, ex.val(fr, st, x.Key), ks)
	v := ex.coerce(st, ex.val(fr, st, x.Value), vs)
	keyP := "map#" + sanitizeName(ks) + "#" + sanitizeName(vs)
	as := "(Array " + ks + " " + vs + ")"
	ps := "(Array " + ks + " Bool)"
	hv := ex.heapArrE(st, keyP+"#v", as)
	hp := ex.heapArrE(st, keyP+"#p", ps)
	st.heap[keyP+"#v"] = store(hv, m.Sym, store(ex.sel(hv, m.Sym, as), k, v))
	st.heap[keyP+"#p"] = store(hp, m.Sym, store(ex.sel(hp, m.Sym, ps), k, TTrue))
}

func (ex *Exec) coerce(st *State, v Val, sort string) *Term {
	var t *Term
	if iv, ok := v.(*IfaceV); ok {
		t = ex.ifaceTerm(st, iv, sort)
	} else {
		t = ex.asTerm(st, v)
	}
	if t == nil || t.Sort != sort {
		return ex.freshTerm("coerce", sort, false)
	}
	return t
}

func (ex *Exec) lookup(fr *Frame, st *State, x *ssa.Lookup) Val {
	base := ex.val(fr, st, x.X)
	switch m := base.(type) {
	case *MapV:
		ks, vs := elemSort(m.K), elemSort(m.V)
		k := ex.coerce(st, ex.val(fr, st, x.Index), ks)
		keyP := "map#" + sanitizeName(ks) + "#" + sanitizeName(vs)
		as := "(Array " + ks + " " + vs + ")"
		ps := "(Array " + ks + " Bool)"
		hv := ex.heapArrE(st, keyP+"#v", as)
		hp := ex.heapArrE(st, keyP+"#p", ps)
		present := ex.sel(ex.sel(hp, m.Sym, ps), k, SBool)
		var val Val
		if s, signed := sortOfType(m.V); s != "" {
			tv := ex.sel(ex.sel(hv, m.Sym, as), k, vs)
			tv.Signed = signed
			// absent keys yield the zero value
			val = ex.wrapTerm(Ite(present, tv, ex.zeroTermOfSort(vs)), m.V)
			if t, ok := val.(*Term); ok {
				t.Signed = signed
			}
		} else {
			val = ex.freshVal(st, m.V, "mapval")
			if sl, ok := val.(*SliceV); ok {
				// the slice stored under k is a function of (map, key)
				ex.declareUF("mapslice_len", []string{SRef, ks}, bvSort(64))
				ex.declareUF("mapslice_back", []string{SRef, ks}, SRef)
				st.Assume(Eq(sl.Len, Ite(present, app(bvSort(64), "mapslice_len", m.Sym, k), BVInt(0, 64, true))))
				st.Assume(Eq(sl.Back, app(SRef, "mapslice_back", m.Sym, k)))
			}
		}
		if x.CommaOk {
			return &TupleV{E: []Val{val, present}}
		}
		return val
	case *Term:
		if m.Sort == SString {
			idx, _ := ex.val(fr, st, x.Index).(*Term)
			if idx != nil {
				return &Term{S: fmt.Sprintf("((_ int2bv 8) (str.to_code (str.at %s (bv2nat %s))))", m.S, toIndex(idx).S), Sort: bvSort(8)}
			}
		}
	}
	return ex.freshVal(st, x.Type(), "lookup")
}

// foldBV folds arithmetic and comparisons on bit-vector literals.
func foldBV(op token.Token, x, y *Term, signed bool) *Term {
	a, w, ok1 := modelBV(x.S)
	b, _, ok2 := modelBV(y.S)
	if !ok1 || !ok2 || !strings.HasPrefix(x.S, "(_ bv") || !strings.HasPrefix(y.S, "(_ bv") {
		return nil
	}
	toS := func(v *big.Int) *big.Int {
		if signed && v.Bit(w-1) == 1 {
			return new(big.Int).Sub(v, new(big.Int).Lsh(big.NewInt(1), uint(w)))
		}
		return v
	}
	as, bs := toS(a), toS(b)
	boolT := func(c bool) *Term {
		if c {
			return TTrue
		}
		return TFalse
	}
	switch op {
	case token.ADD:
		return BVConst(new(big.Int).Add(as, bs), w, signed)
	case token.SUB:
		return BVConst(new(big.Int).Sub(as, bs), w, signed)
	case token.MUL:
		return BVConst(new(big.Int).Mul(as, bs), w, signed)
	case token.LSS:
		return boolT(as.Cmp(bs) < 0)
	case token.LEQ:
		return boolT(as.Cmp(bs) <= 0)
	case token.GTR:
		return boolT(as.Cmp(bs) > 0)
	case token.GEQ:
		return boolT(as.Cmp(bs) >= 0)
	}
	return nil
}

func errConstSym(t types.Type, val string) *Term {
	return &Term{S: "econst!" + sanitizeName(shortType(t)) + "!" + sanitizeName(val), Sort: SErr}
}

// noteRecv: ghost lastRecvErr (when a spec declares it for the property in force) holds the value most recently
// received from a channel of errors, so that a contract can say "the result is what the action sent".
func (ex *Exec) noteRecv(st *State, t types.Type, v Val) {
	g, ok := ex.lib.Ghosts["lastRecvErr"]
	if !ok || !tagActive(g.Tags, ex.prop) || !isErrorType(t) {
		return
	}
	if iv, ok := v.(*IfaceV); ok {
		st.ghost["lastRecvErr"] = ex.ifaceTerm(st, iv, SErr)
	}
}
