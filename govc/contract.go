package main

import (
	"bufio"
	"fmt"
	"os"
	"path/filepath"
	"regexp"
	"strings"
)

type Clause struct {
	Kind    string   // requires ensures invariant modifies sets havoc decreases assert-at
	Tags    []string // property tags; empty = every property
	Loop    int      // invariant: loop ordinal (1-based)
	Text    string
	E       Expr
	LHS     *ECall // sets g(args) := E   (LHS.Fun = ghost name)
	Names   []string
	File    string
	Line    int
	Ord     int // ordinal among clauses of the same kind in the contract (1-based)
	Label   string
	Reached bool
	Schema  bool // clause contributed by a schema (need not be reached in every function)
	Assumed bool // clause from a 'trusted' block of /verif/specs: used at call sites, never an obligation
	Cases   []Expr
}

type Contract struct {
	Key      string
	Extern   bool // assumed (specs) rather than proved
	Flags    map[string]bool
	Clauses  []*Clause
	File     string
	Line     int
	Tags     []string // tags on the func line itself: contract only active for those
	PkgPath  string
	Used     bool
	Synth    bool     // created by a schema only: no ghost frame is claimed, callers havoc the owned ghosts
	ResNames []string // result names for externs: "-> (n, err)"
}

type SpecFun struct {
	Unsigned bool // result is an unsigned bit-vector (declared with a u* alias)
	Name     string
	ArgNames []string
	ArgSorts []string
	Ret      string
	Body     string // SMT text; empty = uninterpreted
	Rec      bool
}

type Axiom struct {
	Name string
	Smt  string
	Tags []string
}

type Ghost struct {
	Stable  bool
	FsState bool
	// ResetOnLock: a Bool ghost that every mutex acquisition by the code under proof sets to false
	ResetOnLock bool
	Name        string
	Sort        string
	Init        string // SMT text or "" (fresh at entry)
	Tags        []string
}

type GuardDecl struct {
	Pkg, Type, Field, Mutex string
	Tags                    []string
}

type Lemma struct {
	Name string
	Tags []string
	Vars [][2]string
	E    Expr
	Text string
	File string
	Line int
}

type Instantiate struct {
	Funcs []string
	Types []string
	Pkg   string
}

type SpecLib struct {
	Sorts     []string
	Funs      map[string]*SpecFun
	FunOrder  []string
	Axioms    []*Axiom
	Ghosts    map[string]*Ghost
	Contracts map[string]*Contract
	Lemmas    []*Lemma
	Insts     []*Instantiate
	Trusted   []*Contract
	Schemas   []*Contract
	Frozen    []string
	Immutable [][2]string
	Dispatch  map[string]string
	Guarded   []GuardDecl
	Assumes   []string // scan result: every assumed item, for the evidence file
}

func NewSpecLib() *SpecLib {
	return &SpecLib{Funs: map[string]*SpecFun{}, Ghosts: map[string]*Ghost{}, Contracts: map[string]*Contract{}}
}

var sortAlias = map[string]string{
	"bool": SBool, "Bool": SBool, "string": SString, "String": SString, "err": SErr, "Err": SErr, "error": SErr,
	"ref": SRef, "Ref": SRef, "Int": SInt, "int": bvSort(64), "int64": bvSort(64), "uint64": bvSort(64), "int32": bvSort(32),
	"uint32": bvSort(32), "int16": bvSort(16), "uint16": bvSort(16), "int8": bvSort(8), "uint8": bvSort(8), "byte": bvSort(8),
	"Z": SZ, "float64": SF64, "float32": SF32, "duration": bvSort(64),
}

func resolveSort(s string) string {
	s = strings.TrimSpace(s)
	if a, ok := sortAlias[s]; ok {
		return a
	}
	return s // raw SMT sort, e.g. (Array Int Bool)
}

var tagRe = regexp.MustCompile(`^\[([A-Za-z0-9,+]+)\]\s*`)

func splitTags(s string) ([]string, string) {
	if m := tagRe.FindStringSubmatch(s); m != nil {
		return strings.Split(m[1], ","), s[len(m[0]):]
	}
	return nil, s
}

var clauseKinds = map[string]bool{"requires": true, "ensures": true, "invariant": true, "modifies": true, "sets": true,
	"havoc": true, "decreases": true, "flags": true, "results": true, "assert": true, "cases": true, "exempt": true, "check": true, "local": true, "params": true}

// splitTopLevelArgs splits "a S1, b S2" respecting parentheses.
func splitTop(s string, sep byte) []string {
	var out []string
	depth := 0
	last := 0
	for i := 0; i < len(s); i++ {
		switch s[i] {
		case '(':
			depth++
		case ')':
			depth--
		default:
			if s[i] == sep && depth == 0 {
				out = append(out, strings.TrimSpace(s[last:i]))
				last = i + 1
			}
		}
	}
	if strings.TrimSpace(s[last:]) != "" {
		out = append(out, strings.TrimSpace(s[last:]))
	}
	return out
}

type rawLine struct {
	text string
	file string
	line int
}

// LoadContractFile reads //@ lines of a Go contract file (repo side).
func (lib *SpecLib) LoadContractFile(path, pkgPath string) error {
	f, err := os.Open(path)
	if err != nil {
		return err
	}
	defer f.Close()
	var lines []rawLine
	sc := bufio.NewScanner(f)
	sc.Buffer(make([]byte, 1<<20), 1<<20)
	n := 0
	for sc.Scan() {
		n++
		t := strings.TrimSpace(sc.Text())
		if strings.HasPrefix(t, "//@") {
			lines = append(lines, rawLine{strings.TrimPrefix(t, "//@"), path, n})
		}
	}
	return lib.parseLines(lines, pkgPath, false)
}

// LoadSpecFile reads a /verif/specs file (assumptions about dependencies,
// spec functions, ghost state).
func (lib *SpecLib) LoadSpecFile(path string) error {
	f, err := os.Open(path)
	if err != nil {
		return err
	}
	defer f.Close()
	var lines []rawLine
	sc := bufio.NewScanner(f)
	sc.Buffer(make([]byte, 1<<20), 1<<20)
	n := 0
	for sc.Scan() {
		n++
		t := sc.Text()
		if i := strings.Index(t, "--"); i >= 0 && !strings.Contains(t[:i], "\"") {
			t = t[:i]
		}
		if strings.TrimSpace(t) == "" {
			continue
		}
		lines = append(lines, rawLine{t, path, n})
	}
	return lib.parseLines(lines, "", true)
}

func (lib *SpecLib) parseLines(lines []rawLine, pkgPath string, isSpec bool) error {
	var cur *Contract
	var lastClause *Clause
	var lastRaw *string // for multi-line define/axiom bodies
	counts := map[string]int{}
	finishClause := func() error {
		if lastClause == nil {
			return nil
		}
		c := lastClause
		lastClause = nil
		return parseClause(c)
	}
	for _, rl := range lines {
		t := strings.TrimSpace(rl.text)
		if t == "" {
			continue
		}
		word := t
		rest := ""
		if i := strings.IndexAny(t, " \t"); i >= 0 {
			word, rest = t[:i], strings.TrimSpace(t[i+1:])
		}
		var tags []string
		if strings.HasPrefix(word, "[") {
			tags, t = splitTags(t)
			word, rest = t, ""
			if i := strings.IndexAny(t, " \t"); i >= 0 {
				word, rest = t[:i], strings.TrimSpace(t[i+1:])
			}
		}
		fail := func(f string, a ...interface{}) error {
			return fmt.Errorf("%s:%d: %s", rl.file, rl.line, fmt.Sprintf(f, a...))
		}
		switch {
		case word == "trusted" && isSpec:
			// assumed clauses about a /repo function (listed as assumptions, never proved)
			if err := finishClause(); err != nil {
				return err
			}
			lastRaw = nil
			fields := strings.Fields(rest)
			if len(fields) == 0 {
				return fail("missing function name")
			}
			cur = &Contract{Key: fields[0], Flags: map[string]bool{"trusted-block": true}, File: rl.file, Line: rl.line, Tags: tags}
			for _, fl := range fields[1:] {
				cur.Flags[fl] = true // e.g. "pure": assumed, like the clauses
			}
			lib.Trusted = append(lib.Trusted, cur)
			counts = map[string]int{}
			lib.Assumes = append(lib.Assumes, "trusted clauses about "+fields[0])
		case word == "schema":
			// schema <glob over function keys>: clauses added to every matching function of the package
			if err := finishClause(); err != nil {
				return err
			}
			lastRaw = nil
			fields := strings.Fields(rest)
			if len(fields) == 0 {
				return fail("missing pattern")
			}
			key := fields[0]
			if pkgPath != "" {
				key = qualifyKey(key, pkgPath)
			}
			cur = &Contract{Key: key, Flags: map[string]bool{}, File: rl.file, Line: rl.line, Tags: tags, PkgPath: pkgPath}
			for _, fl := range fields[1:] {
				cur.Flags[fl] = true
			}
			lib.Schemas = append(lib.Schemas, cur)
			counts = map[string]int{}
		case word == "dispatch" && isSpec:
			// dispatch <interface> => <concrete type>: values of that /repo interface are of that type
			parts := strings.Split(rest, "=>")
			if len(parts) != 2 {
				return fail("dispatch iface => type")
			}
			if lib.Dispatch == nil {
				lib.Dispatch = map[string]string{}
			}
			lib.Dispatch[strings.TrimSpace(parts[0])] = strings.TrimSpace(parts[1])
			lib.Assumes = append(lib.Assumes, "values of interface "+strings.TrimSpace(parts[0])+" are "+strings.TrimSpace(parts[1])+" (only implementation in /repo besides generated mocks)")
		case word == "guarded":
			// guarded T.f, T.g by mu : fields of T that may only be read holding T.mu (read or write) and written holding it for writing
			parts := strings.Split(rest, " by ")
			if len(parts) != 2 {
				return fail("guarded T.f, T.g by mu")
			}
			for _, f := range splitTop(parts[0], ',') {
				tf := strings.SplitN(f, ".", 2)
				if len(tf) != 2 {
					return fail("guarded needs Type.field")
				}
				lib.Guarded = append(lib.Guarded, GuardDecl{Pkg: pkgPath, Type: tf[0], Field: tf[1], Mutex: strings.TrimSpace(parts[1]), Tags: tags})
			}
		case word == "frozen" && isSpec:
			// frozen <pkgpath>.<Type>: ASSUMPTION about a dependency - objects of this type are not written once
			// the dependency has handed them out (their fields survive the heap havoc of calls)
			if err := finishClause(); err != nil {
				return err
			}
			for _, f := range strings.Fields(rest) {
				lib.Frozen = append(lib.Frozen, f)
				lib.Assumes = append(lib.Assumes, "objects of type "+f+" are not modified after the dependency has produced them (frozen)")
			}
		case word == "immutable":
			// immutable T.field, T.field2: fields written only when the object is built
			if err := finishClause(); err != nil {
				return err
			}
			for _, f := range splitTop(rest, ',') {
				lib.Immutable = append(lib.Immutable, [2]string{pkgPath, f})
			}
		case word == "func" || word == "extern":
			if err := finishClause(); err != nil {
				return err
			}
			lastRaw = nil
			if word == "extern" && !isSpec {
				return fail("extern contracts are only allowed in /verif/specs")
			}
			fields := strings.Fields(rest)
			if len(fields) == 0 {
				return fail("missing function name")
			}
			key := fields[0]
			if pkgPath != "" {
				key = qualifyKey(key, pkgPath)
			}
			cur = &Contract{Key: key, Extern: word == "extern", Flags: map[string]bool{}, File: rl.file, Line: rl.line, Tags: tags, PkgPath: pkgPath}
			for _, fl := range fields[1:] {
				cur.Flags[fl] = true
			}
			counts = map[string]int{}
			if old, dup := lib.Contracts[key]; dup {
				// several blocks for one function (contracts are organised by property): merge
				if old.Extern != cur.Extern {
					return fail("contract for %s is both extern and func (first at %s:%d)", key, old.File, old.Line)
				}
				for fl := range cur.Flags {
					old.Flags[fl] = true
				}
				cur = old
				for _, cl := range old.Clauses {
					counts[cl.Kind]++
				}
			} else {
				lib.Contracts[key] = cur
			}
			if cur.Extern {
				lib.Assumes = append(lib.Assumes, "assumed contract of dependency "+key)
			}
		case clauseKinds[word] && cur != nil:
			if err := finishClause(); err != nil {
				return err
			}
			lastRaw = nil
			if word == "flags" {
				for _, fl := range strings.Fields(rest) {
					cur.Flags[fl] = true
				}
				continue
			}
			if word == "results" {
				cur.ResNames = splitTop(rest, ',')
				continue
			}
			counts[word]++
			c := &Clause{Kind: word, Tags: tags, Text: rest, File: rl.file, Line: rl.line, Ord: counts[word]}
			cur.Clauses = append(cur.Clauses, c)
			lastClause = c
		case word == "instantiate":
			if err := finishClause(); err != nil {
				return err
			}
			parts := strings.SplitN(rest, ":", 2)
			if len(parts) != 2 {
				return fail("instantiate F, G : types")
			}
			in := &Instantiate{Pkg: pkgPath}
			for _, f := range strings.Split(parts[0], ",") {
				in.Funcs = append(in.Funcs, strings.TrimSpace(f))
			}
			in.Types = strings.Fields(parts[1])
			lib.Insts = append(lib.Insts, in)
		case word == "lemma":
			if err := finishClause(); err != nil {
				return err
			}
			cur = nil
			parts := strings.SplitN(rest, ":", 2)
			if len(parts) != 2 {
				return fail("lemma name: expr")
			}
			l := &Lemma{Name: strings.TrimSpace(parts[0]), Tags: tags, Text: strings.TrimSpace(parts[1]), File: rl.file, Line: rl.line}
			lib.Lemmas = append(lib.Lemmas, l)
			lastRaw = &l.Text
		case isSpec && word == "sort":
			lib.Sorts = append(lib.Sorts, rest)
		case isSpec && (word == "fun" || word == "define" || word == "define-rec"):
			if err := finishClause(); err != nil {
				return err
			}
			cur = nil
			// name(args) Ret [= body]
			op := strings.Index(rest, "(")
			if op < 0 {
				return fail("bad fun declaration")
			}
			depth, cl := 0, -1
			for i := op; i < len(rest); i++ {
				if rest[i] == '(' {
					depth++
				} else if rest[i] == ')' {
					depth--
					if depth == 0 {
						cl = i
						break
					}
				}
			}
			if cl < 0 {
				return fail("bad fun declaration")
			}
			sf := &SpecFun{Name: strings.TrimSpace(rest[:op]), Rec: word == "define-rec"}
			for _, a := range splitTop(rest[op+1:cl], ',') {
				if word == "fun" {
					sf.ArgSorts = append(sf.ArgSorts, resolveSort(a))
				} else {
					i := strings.IndexAny(a, " \t")
					if i < 0 {
						return fail("define needs named arguments")
					}
					sf.ArgNames = append(sf.ArgNames, a[:i])
					sf.ArgSorts = append(sf.ArgSorts, resolveSort(a[i+1:]))
				}
			}
			tail := strings.TrimSpace(rest[cl+1:])
			if word == "fun" {
				sf.Unsigned = strings.HasPrefix(strings.TrimSpace(tail), "u")
				sf.Ret = resolveSort(tail)
				lib.Assumes = append(lib.Assumes, "uninterpreted spec function "+sf.Name)
			} else {
				i := strings.Index(tail, "=")
				if i < 0 {
					return fail("define needs '= body'")
				}
				sf.Unsigned = strings.HasPrefix(strings.TrimSpace(tail[:i]), "u")
				sf.Ret = resolveSort(tail[:i])
				sf.Body = strings.TrimSpace(tail[i+1:])
				lastRaw = &sf.Body
			}
			if _, dup := lib.Funs[sf.Name]; dup {
				return fail("duplicate spec function %s", sf.Name)
			}
			lib.Funs[sf.Name] = sf
			lib.FunOrder = append(lib.FunOrder, sf.Name)
		case isSpec && word == "axiom":
			if err := finishClause(); err != nil {
				return err
			}
			cur = nil
			parts := strings.SplitN(rest, ":", 2)
			if len(parts) != 2 {
				return fail("axiom name: smt")
			}
			ax := &Axiom{Name: strings.TrimSpace(parts[0]), Smt: strings.TrimSpace(parts[1]), Tags: tags}
			lib.Axioms = append(lib.Axioms, ax)
			lib.Assumes = append(lib.Assumes, "axiom "+ax.Name)
			lastRaw = &ax.Smt
		case word == "ghost":
			if err := finishClause(); err != nil {
				return err
			}
			cur = nil
			g := &Ghost{Tags: tags}
			def := rest
			if i := strings.Index(rest, "="); i >= 0 {
				def = strings.TrimSpace(rest[:i])
				g.Init = strings.TrimSpace(rest[i+1:])
			}
			i := strings.IndexAny(def, " \t")
			if i < 0 {
				return fail("ghost name Sort")
			}
			g.Name = def[:i]
			srt := strings.TrimSpace(def[i+1:])
			if strings.HasSuffix(srt, " resetonlock") {
				g.ResetOnLock = true
				srt = strings.TrimSuffix(srt, " resetonlock")
			}
			if strings.HasSuffix(srt, " stable") {
				// only contracts that name it in modifies/sets change it (objects it describes never escape to callees)
				g.Stable = true
				srt = strings.TrimSuffix(srt, " stable")
			}
			if strings.HasSuffix(srt, " fsstate") {
				// file-system state: changed only by callees that can reach a mutating backend operation
				g.FsState = true
				srt = strings.TrimSuffix(srt, " fsstate")
			}
			g.Sort = resolveSort(srt)
			lib.Ghosts[g.Name] = g
		default:
			// continuation line
			if lastClause != nil {
				lastClause.Text += " " + t
			} else if lastRaw != nil {
				*lastRaw += " " + t
			} else {
				return fail("cannot parse %q", t)
			}
		}
	}
	if err := finishClause(); err != nil {
		return err
	}
	for _, l := range lib.Lemmas {
		if l.E == nil {
			e, err := ParseExpr(l.Text)
			if err != nil {
				return fmt.Errorf("%s:%d: %v", l.File, l.Line, err)
			}
			l.E = e
		}
	}
	return nil
}

func parseClause(c *Clause) error {
	fail := func(err error) error { return fmt.Errorf("%s:%d: %v", c.File, c.Line, err) }
	text := c.Text
	switch c.Kind {
	case "modifies", "havoc":
		for _, n := range splitTop(text, ',') {
			c.Names = append(c.Names, n)
		}
		return nil
	case "check":
		// check <discipline>: the function is verified for an engine-level discipline (e.g. "check locks")
		c.Names = strings.Fields(text)
		return nil
	case "params":
		// params <name0> <name1> ...: the parameter names (receiver first) the clauses of this contract were written
		// with; when a parameter is renamed the old name keeps designating the same position
		c.Names = strings.Fields(text)
		return nil
	case "local":
		// local <name> = result [k] of <callee> [#n]   |   local <name> = accumulator [#n]
		// A description of the local variable a clause names, used to find it again when it has been renamed.
		i := strings.Index(text, "=")
		if i < 0 {
			return fail(fmt.Errorf("local name = description"))
		}
		c.Names = []string{strings.TrimSpace(text[:i])}
		c.Text = strings.TrimSpace(text[i+1:])
		return nil
	case "exempt":
		// exempt <schema clause label>: <reason>   (the schema clause of that label is not claimed for this function)
		i := strings.Index(text, ":")
		if i < 0 {
			return fail(fmt.Errorf("exempt label: reason"))
		}
		c.Names = []string{strings.TrimSpace(text[:i])}
		c.Label = strings.TrimSpace(text[:i])
		c.Text = strings.TrimSpace(text[i+1:])
		return nil
	case "cases":
		// cases <param> : "lit" | "lit" | ...   (the function is verified once per literal)
		i := strings.Index(text, ":")
		if i < 0 {
			return fail(fmt.Errorf("cases param : lit | lit"))
		}
		c.Names = []string{strings.TrimSpace(text[:i])}
		for _, l := range strings.Split(text[i+1:], "|") {
			e, err := ParseExpr(strings.TrimSpace(l))
			if err != nil {
				return fail(err)
			}
			c.Cases = append(c.Cases, e)
		}
		return nil
	case "invariant":
		text = strings.TrimSpace(text)
		if !strings.HasPrefix(text, "#") {
			return fail(fmt.Errorf("invariant needs a loop ordinal: invariant #k expr"))
		}
		var k int
		i := strings.IndexAny(text, " \t")
		if i < 0 {
			return fail(fmt.Errorf("invariant needs an expression"))
		}
		fmt.Sscanf(text[1:i], "%d", &k)
		c.Loop = k
		text = text[i+1:]
	case "assert":
		// assert @<callee substring> [label:] expr
		text = strings.TrimSpace(text)
		if !strings.HasPrefix(text, "@") {
			return fail(fmt.Errorf("assert needs a call site: assert @callee expr"))
		}
		i := strings.IndexAny(text, " \t")
		if i < 0 {
			return fail(fmt.Errorf("assert needs an expression"))
		}
		c.Names = []string{text[1:i]}
		text = text[i+1:]
	case "sets":
		i := strings.Index(text, ":=")
		if i < 0 {
			return fail(fmt.Errorf("sets g(args) := e"))
		}
		lhs, err := ParseExpr(text[:i])
		if err != nil {
			return fail(err)
		}
		switch l := lhs.(type) {
		case *ECall:
			c.LHS = l
		case *EIdent:
			c.LHS = &ECall{Fun: l.Name}
		default:
			return fail(fmt.Errorf("bad left-hand side of sets"))
		}
		text = text[i+2:]
	}
	if m := regexp.MustCompile(`^([a-zA-Z][a-zA-Z0-9_-]*):\s`).FindStringSubmatch(strings.TrimSpace(text)); m != nil && c.Kind != "sets" {
		c.Label = m[1]
		text = strings.TrimSpace(text)[len(m[0]):]
	}
	e, err := ParseExpr(text)
	if err != nil {
		return fail(err)
	}
	c.E = e
	return nil
}

// qualifyKey turns "(*T).M" / "(T).M" / "F" into a package-qualified key in
// the style of types.Func.FullName.
func qualifyKey(key, pkgPath string) string {
	if strings.Contains(key, "/") || (strings.Contains(key, ".") && !strings.HasPrefix(key, "(")) {
		return key
	}
	if strings.HasPrefix(key, "(*") {
		return "(*" + pkgPath + "." + key[2:]
	}
	if strings.HasPrefix(key, "(") {
		return "(" + pkgPath + "." + key[1:]
	}
	return pkgPath + "." + key
}

// tagActive: a clause is in force for property prop when it is untagged, tagged
// with prop, or tagged "Cxx+" (owned – i.e. proved – by Cxx, usable everywhere).
func tagActive(tags []string, prop string) bool {
	if len(tags) == 0 {
		return true
	}
	for _, t := range tags {
		if t == prop || strings.HasSuffix(t, "+") {
			return true
		}
	}
	return false
}

// tagOwned: the clause is an obligation of prop's own check.
func tagOwned(tags []string, prop string) bool {
	if len(tags) == 0 {
		return true
	}
	for _, t := range tags {
		if t == prop || t == prop+"+" {
			return true
		}
	}
	return false
}

// MergeTrusted attaches the trusted clauses to the contracts of the functions they
// talk about (creating an empty contract when the function has none).
func (lib *SpecLib) MergeTrusted() {
	for _, t := range lib.Trusted {
		c := lib.Contracts[t.Key]
		if c == nil {
			c = &Contract{Key: t.Key, Flags: map[string]bool{}, File: t.File, Line: t.Line}
			lib.Contracts[t.Key] = c
		}
		for fl := range t.Flags {
			if fl != "trusted-block" && len(t.Tags) == 0 {
				c.Flags[fl] = true
			}
		}
		for _, cl := range t.Clauses {
			cl.Assumed = true
			if len(cl.Tags) == 0 {
				cl.Tags = t.Tags
			}
			c.Clauses = append(c.Clauses, cl)
		}
	}
}

// LintGhostFrames: an ensures clause that relates a ghost to its old value describes a change of that ghost; the
// contract must then list the ghost in modifies (or sets), otherwise the assumed clause would contradict the frame
// and make every path after the call vacuously infeasible.
func (lib *SpecLib) LintGhostFrames() []string {
	var errs []string
	for _, key := range sortedKeys(lib.Contracts) {
		c := lib.Contracts[key]
		mod := map[string]bool{}
		for _, cl := range c.Clauses {
			switch cl.Kind {
			case "modifies", "havoc":
				for _, n := range cl.Names {
					mod[n] = true
				}
			case "sets":
				mod[cl.LHS.Fun] = true
			}
		}
		for _, cl := range c.Clauses {
			if cl.Kind != "ensures" || !strings.Contains(cl.Text, "old(") {
				continue
			}
			for g := range lib.Ghosts {
				if mod[g] {
					continue
				}
				if regexp.MustCompile(`old\([^)]*\b` + regexp.QuoteMeta(g) + `\b`).MatchString(cl.Text) {
					errs = append(errs, fmt.Sprintf("%s:%d: ensures of %s relates ghost %s to its old value but the contract does not list it in modifies", cl.File, cl.Line, shortKey(key), g))
				}
			}
		}
	}
	return errs
}

// LoadAllSpecs loads /verif/specs/*.spec
func (lib *SpecLib) LoadAllSpecs(dir string) error {
	files, _ := filepath.Glob(filepath.Join(dir, "*.spec"))
	for _, f := range files {
		if err := lib.LoadSpecFile(f); err != nil {
			return err
		}
	}
	return nil
}

// paramAliases: old parameter names (from the contract's "params" clause) that differ from the current ones, by position.
func (c *Contract) paramAliases(cur []string) map[string]int {
	if c == nil {
		return nil
	}
	var out map[string]int
	for _, cl := range c.Clauses {
		if cl.Kind != "params" || len(cl.Names) != len(cur) {
			continue
		}
		isCur := map[string]bool{}
		for _, n := range cur {
			isCur[n] = true
		}
		for i, old := range cl.Names {
			if old != cur[i] && old != "_" && !isCur[old] {
				if out == nil {
					out = map[string]int{}
				}
				out[old] = i
			}
		}
	}
	return out
}
