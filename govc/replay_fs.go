package main

import "strings"

func init() { replayDrivers["closedguard-forceremove"] = replayClosedForceRemove }

// replayClosedForceRemove: a filesystem over a closeable resource and a backend that
// implements IForceRemover; after Close(), RemoveWithPrivileges must not reach the backend.
func replayClosedForceRemove(ex *Exec, o *Obligation) (string, string, string, bool, error) {
	src := `package filesystem

import (
	"context"
	"testing"

	"github.com/spf13/afero"
)

type verifForceRemoverFs struct {
	afero.Fs
	forced int
}

func (f *verifForceRemoverFs) ForceRemoveIfPossible(name string) error { f.forced++; return nil }

type verifCloser struct{}

func (verifCloser) Close() error { return nil }

func TestVerifReplay(t *testing.T) {
	backend := &verifForceRemoverFs{Fs: afero.NewMemMapFs()}
	_ = afero.WriteFile(backend.Fs, "/d/f.txt", []byte("x"), 0o644)
	fs := NewCloseableVirtualFileSystem(backend, InMemoryFS, verifCloser{}, "test resource", IdentityPathConverterFunc)
	if err := fs.Close(); err != nil {
		t.Fatal(err)
	}
	err := fs.(*VFS).RemoveWithPrivileges(context.Background(), "/d")
	if backend.forced > 0 {
		t.Fatalf("REPRODUCED: RemoveWithPrivileges on a closed filesystem reached the backend (ForceRemoveIfPossible called %d time(s)), returned %v", backend.forced, err)
	}
	t.Logf("NOT-REPRODUCED: %v", err)
}
`
	return "filesystem", src, "^TestVerifReplay$", false, nil
}

func init() { replayDrivers["rm-symlink"] = replayRmSymlink }

// replayRmSymlink: on the OS backend, a tree that contains a symbolic link to a directory outside of it (and a dangling
// link) is removed / garbage collected; nothing outside may be touched and, on success, the tree must be gone.
func replayRmSymlink(ex *Exec, o *Obligation) (string, string, string, bool, error) {
	src := `package filesystem

import (
	"os"
	"path/filepath"
	"testing"
	"time"
)

func verifMkTree(t *testing.T) (root, tree, precious string) {
	root = t.TempDir()
	tree = filepath.Join(root, "tree")
	outside := filepath.Join(root, "outside")
	_ = os.MkdirAll(filepath.Join(tree, "sub"), 0o755)
	_ = os.MkdirAll(outside, 0o755)
	precious = filepath.Join(outside, "precious.txt")
	_ = os.WriteFile(precious, []byte("keep"), 0o644)
	_ = os.WriteFile(filepath.Join(tree, "sub", "f.txt"), []byte("x"), 0o644)
	if err := os.Symlink(outside, filepath.Join(tree, "lnk")); err != nil {
		t.Skip("symlinks not available")
	}
	_ = os.Symlink(filepath.Join(root, "nowhere"), filepath.Join(tree, "dangling"))
	old := time.Now().Add(-48 * time.Hour)
	_ = os.Chtimes(precious, old, old)
	_ = os.Chtimes(filepath.Join(tree, "sub", "f.txt"), old, old)
	return
}

func TestVerifReplay(t *testing.T) {
	fs := NewFs(StandardFS)
	// 1. Rm of the tree
	_, tree, precious := verifMkTree(t)
	err := fs.Rm(tree)
	if _, serr := os.Stat(precious); serr != nil {
		t.Fatalf("REPRODUCED: Rm(tree) followed tree/lnk and deleted %s (Rm returned %v)", precious, err)
	}
	if _, lerr := os.Lstat(tree); err == nil && lerr == nil {
		t.Fatalf("REPRODUCED: Rm(tree) reported success but the tree is still there")
	}
	// 2. Rm of a dangling link
	root2 := t.TempDir()
	d := filepath.Join(root2, "dangling")
	_ = os.Symlink(filepath.Join(root2, "nowhere"), d)
	err = fs.Rm(d)
	if _, lerr := os.Lstat(d); err == nil && lerr == nil {
		t.Fatalf("REPRODUCED: Rm(dangling link) reported success but the link is still there")
	}
	// 3. garbage collection of the tree
	_, tree3, precious3 := verifMkTree(t)
	err = fs.GarbageCollect(tree3, time.Hour)
	if _, serr := os.Stat(precious3); serr != nil {
		t.Fatalf("REPRODUCED: GarbageCollect(tree) followed tree/lnk and deleted %s (returned %v)", precious3, err)
	}
	t.Logf("NOT-REPRODUCED")
}
`
	return "filesystem", src, "^TestVerifReplay$", false, nil
}

func init() { replayDrivers["excl-nested"] = replayExclNested }

// replayExclNested: an entry whose name matches an exclusion pattern two levels down must survive a removal.
func replayExclNested(ex *Exec, o *Obligation) (string, string, string, bool, error) {
	src := `package filesystem

import (
	"context"
	"testing"
)

func TestVerifReplay(t *testing.T) {
	for _, fsType := range FileSystemTypes {
		fs := NewFs(fsType)
		tree, err := fs.TempDirInTempDir("verif-excl-")
		if err != nil {
			t.Fatal(err)
		}
		defer func() { _ = fs.Rm(tree) }()
		_ = fs.MkDir(tree + "/a/keepme")
		_ = fs.MkDir(tree + "/keepme")
		_ = fs.WriteFile(tree+"/a/keepme/f.txt", []byte("x"), 0o644)
		_ = fs.WriteFile(tree+"/keepme/g.txt", []byte("x"), 0o644)
		_ = fs.WriteFile(tree+"/a/other.txt", []byte("x"), 0o644)
		err = fs.RemoveWithContextAndExclusionPatterns(context.Background(), tree, "keepme")
		if !fs.Exists(tree + "/a/keepme/f.txt") {
			t.Fatalf("REPRODUCED (%v): RemoveWithContextAndExclusionPatterns(tree, \"keepme\") deleted tree/a/keepme/f.txt (returned %v); first-level keepme survives: %v", fsType, err, fs.Exists(tree+"/keepme/g.txt"))
		}
	}
	t.Logf("NOT-REPRODUCED")
}
`
	return "filesystem", src, "^TestVerifReplay$", false, nil
}

func init() { replayDrivers["lock-race"] = replayLockRace }

// replayLockRace drives the two protocol races deterministically: an afero.Fs wrapper performs another contender's
// step at the file-system primitive named by the failed obligation.
func replayLockRace(ex *Exec, o *Obligation) (string, string, string, bool, error) {
	scenario := lockScenarioUnlock
	if strings.Contains(o.Name, "ReleaseIfStale") {
		scenario = lockScenarioTakeover
	}
	src := strings.Replace(lockRaceTemplate, "//SCENARIO\n", scenario, 1)
	return "filesystem", src, "^TestVerifReplay$", false, nil
}

const lockScenarioUnlock = `	// ---- 1. a release destroys a lock acquired afterwards by somebody else
	dir := t.TempDir()
	hook := &verifHookFs{Fs: base}
	a := verifLock(hook, dir, false)
	b := verifLock(base, dir, false)
	c := verifLock(base, dir, false)
	if err := a.TryLock(ctx); err != nil {
		t.Fatal(err)
	}
	lockDir := filepath.Join(dir, "lockfile-verif")
	injected := false
	var bErr error
	hook.afterRemove = func(name string, err error) {
		if !injected && err == nil && name == lockDir {
			injected = true
			bErr = b.TryLock(ctx) // B acquires right after A's removal succeeded
		}
	}
	aErr := a.Unlock(ctx)
	if injected && bErr == nil {
		cErr := c.TryLock(ctx)
		if aErr == nil && cErr == nil {
			_ = b.Unlock(ctx)
			_ = c.Unlock(ctx)
			t.Fatalf("REPRODUCED: B acquired the lock after A's removal, A's Unlock retried and removed B's lock (returned nil), then C acquired it too: B and C both hold")
		}
		_ = c.Unlock(ctx)
	}
	_ = b.Unlock(ctx)

`

const lockScenarioTakeover = `	// ---- 2. a stale lock is taken over by two contenders
	dir2 := t.TempDir()
	lockDir2 := filepath.Join(dir2, "lockfile-verif")
	_ = os.MkdirAll(lockDir2, 0o755)
	hb := filepath.Join(lockDir2, "verif.lock")
	_ = os.WriteFile(hb, []byte("dead holder"), 0o644)
	old := time.Now().Add(-time.Hour)
	_ = os.Chtimes(hb, old, old)
	_ = os.Chtimes(lockDir2, old, old)
	hook2 := &verifHookFs{Fs: base}
	bb := verifLock(hook2, dir2, true)
	cc := verifLock(base, dir2, true)
	injected2 := false
	var ccErr error
	hook2.beforeRemove = func(name string) {
		if !injected2 && strings.HasPrefix(name, lockDir2) {
			injected2 = true
			ccErr = cc.TryLock(ctx) // C's complete takeover, before B's first removal
		}
	}
	bbErr := bb.TryLock(ctx)
	if injected2 && ccErr == nil && bbErr == nil {
		_ = bb.Unlock(ctx)
		_ = cc.Unlock(ctx)
		t.Fatalf("REPRODUCED: the stale lock was taken over by two contenders: both TryLock calls returned nil")
	}
	_ = bb.Unlock(ctx)
	_ = cc.Unlock(ctx)
`

const lockRaceTemplate = `package filesystem

import (
	"context"
	"os"
	"path/filepath"
	"strings"
	"testing"
	"time"

	"github.com/spf13/afero"
)

type verifHookFs struct {
	afero.Fs
	afterRemove  func(name string, err error)
	beforeRemove func(name string)
}

func (h *verifHookFs) Remove(name string) error {
	if h.beforeRemove != nil {
		h.beforeRemove(name)
	}
	err := h.Fs.Remove(name)
	if h.afterRemove != nil {
		h.afterRemove(name, err)
	}
	return err
}

func verifLock(fs afero.Fs, dir string, override bool) ILock {
	v := NewVirtualFileSystem(fs, StandardFS, IdentityPathConverterFunc).(*VFS)
	return NewGenericRemoteLockFile(v, "verif", dir, override)
}

var _ = os.Getpid
var _ = strings.Contains
var _ = time.Now

func TestVerifReplay(t *testing.T) {
	ctx := context.Background()
	base := afero.NewOsFs()
//SCENARIO
	t.Logf("NOT-REPRODUCED")
}
`

func init() { replayDrivers["copy-overlap"] = replayCopyOverlap }

// replayCopyOverlap: Copy("d/f", "d") resolves its destination to the source itself; Copy(a, a/b) copies a directory
// into itself (run with a deadline: it does not terminate on the in-memory backend).
func replayCopyOverlap(ex *Exec, o *Obligation) (string, string, string, bool, error) {
	src := `package filesystem

import (
	"context"
	"testing"
	"time"
)

func TestVerifReplay(t *testing.T) {
	for _, fsType := range FileSystemTypes {
		fs := NewFs(fsType)
		root, err := fs.TempDirInTempDir("verif-copy-")
		if err != nil {
			t.Fatal(err)
		}
		defer func() { _ = fs.Rm(root) }()
		_ = fs.MkDir(root + "/d")
		_ = fs.WriteFile(root+"/d/f", []byte("precious content"), 0o644)
		err = fs.Copy(root+"/d/f", root+"/d")
		content, _ := fs.ReadFile(root + "/d/f")
		if string(content) != "precious content" {
			t.Fatalf("REPRODUCED (%v): Copy(\"d/f\", \"d\") changed its source: content is now %q (returned %v)", fsType, content, err)
		}
		_ = fs.MkDir(root + "/a/sub")
		_ = fs.WriteFile(root+"/a/sub/x", []byte("x"), 0o644)
		ctx, cancel := context.WithTimeout(context.Background(), 3*time.Second)
		done := make(chan error, 1)
		go func() { done <- fs.CopyWithContext(ctx, root+"/a", root+"/a/b") }()
		select {
		case err = <-done:
			cancel()
			if err != nil {
				t.Fatalf("REPRODUCED (%v): Copy(\"a\", \"a/b\") (a directory into itself) recursed until it failed: %.200v", fsType, err)
			}
			var tree []string
			_ = fs.ListDirTree(root+"/a", &tree)
			if len(tree) > 50 {
				t.Fatalf("REPRODUCED (%v): Copy(\"a\", \"a/b\") (a directory into itself) created %d entries", fsType, len(tree))
			}
		case <-time.After(10 * time.Second):
			cancel()
			t.Fatalf("REPRODUCED (%v): Copy(\"a\", \"a/b\") does not terminate", fsType)
		}
	}
	t.Logf("NOT-REPRODUCED")
}
`
	return "filesystem", src, "^TestVerifReplay$", false, nil
}
