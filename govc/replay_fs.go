package main

func init() { replayDrivers["closedguard-forceremove"] = replayClosedForceRemove }

// replayClosedForceRemove: a filesystem over a closeable resource and a backend that
// implements IForceRemover; after Close(), RemoveWithPrivileges must not reach the backend.
func replayClosedForceRemove(ex *Exec, o *Obligation) (string, string, string, bool, error) {
	src := `package filesystem

import (
	"context"
	"testing"

	"github.com/spf13/afero"
)

type verifForceRemoverFs struct {
	afero.Fs
	forced int
}

func (f *verifForceRemoverFs) ForceRemoveIfPossible(name string) error { f.forced++; return nil }

type verifCloser struct{}

func (verifCloser) Close() error { return nil }

func TestVerifReplay(t *testing.T) {
	backend := &verifForceRemoverFs{Fs: afero.NewMemMapFs()}
	_ = afero.WriteFile(backend.Fs, "/d/f.txt", []byte("x"), 0o644)
	fs := NewCloseableVirtualFileSystem(backend, InMemoryFS, verifCloser{}, "test resource", IdentityPathConverterFunc)
	if err := fs.Close(); err != nil {
		t.Fatal(err)
	}
	err := fs.(*VFS).RemoveWithPrivileges(context.Background(), "/d")
	if backend.forced > 0 {
		t.Fatalf("REPRODUCED: RemoveWithPrivileges on a closed filesystem reached the backend (ForceRemoveIfPossible called %d time(s)), returned %v", backend.forced, err)
	}
	t.Logf("NOT-REPRODUCED: %v", err)
}
`
	return "filesystem", src, "^TestVerifReplay$", false, nil
}
