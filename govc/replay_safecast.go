package main

import (
	"fmt"
	"strings"
)

func init() { replayDrivers["safecast"] = replaySafecast }

// replaySafecast calls the real generic function with the model's argument
// and compares with an independent math/big reference of "truncate, then clamp".
func replaySafecast(ex *Exec, o *Obligation) (string, string, string, bool, error) {
	fn := o.Func[strings.LastIndex(o.Func, ".")+1:]
	insts := strings.Split(o.Inst, ",")
	var decl strings.Builder
	goTypes := make([]string, len(insts))
	baseTypes := make([]string, len(insts))
	for i, t := range insts {
		if strings.HasPrefix(t, "~") {
			goTypes[i] = "verifNamed_" + t[1:]
			baseTypes[i] = t[1:]
			if !strings.Contains(decl.String(), "type "+goTypes[i]+" ") {
				fmt.Fprintf(&decl, "type %s %s\n", goTypes[i], t[1:])
			}
		} else {
			goTypes[i] = t
			baseTypes[i] = t
		}
	}
	arg := func(name string, i int) (string, error) {
		v, ok := o.Model["in:"+name]
		if !ok {
			return "", fmt.Errorf("model has no value for %s", name)
		}
		lit, err := goLiteral(v, baseTypes[i])
		if err != nil {
			return "", err
		}
		return fmt.Sprintf("%s(%s)", goTypes[i], lit), nil
	}
	var body string
	switch {
	case strings.HasPrefix(fn, "To"):
		in, err := arg("i", 0)
		if err != nil {
			return "", "", "", false, err
		}
		target := strings.ToLower(strings.TrimPrefix(fn, "To"))
		body = fmt.Sprintf(`
	in := %s
	got := %s[%s](in)
	want := verifRefClamp(verifTrunc(float64OrInt(in)), %q)
	if new(big.Int).SetInt64(0).Cmp(want) == 0 && false { t.Log() }
	gotB := verifBig(got)
	if gotB.Cmp(want) != 0 {
		t.Fatalf("REPRODUCED: %s[%s](%%v) = %%v, nearest value in range is %%v", in, got, want)
	}
	t.Logf("NOT-REPRODUCED: %%v -> %%v", in, got)
`, in, fn, goTypes[0], target, fn, o.Inst)
	case fn == "greaterThanUpperBoundary" || fn == "lessThanLowerBoundary":
		pn := []string{"value", "upperBoundary"}
		if fn == "lessThanLowerBoundary" {
			pn = []string{"value", "boundary"}
		}
		a, err := arg(pn[0], 0)
		if err != nil {
			return "", "", "", false, err
		}
		b, err := arg(pn[1], 1)
		if err != nil {
			return "", "", "", false, err
		}
		cmpTrue, cmpFalse := ">= 0", "<= 0"
		if fn == "lessThanLowerBoundary" {
			cmpTrue, cmpFalse = "<= 0", ">= 0"
		}
		body = fmt.Sprintf(`
	v, bnd := %s, %s
	got := %s[%s, %s](v, bnd)
	tv, tb := verifTrunc(float64OrInt(v)), verifTrunc(float64OrInt(bnd))
	c := tv.Cmp(tb)
	if (got && !(c %s)) || (!got && !(c %s)) {
		t.Fatalf("REPRODUCED: %s(%%v, %%v) = %%v but trunc(value)=%%v boundary=%%v", v, bnd, got, tv, tb)
	}
	t.Logf("NOT-REPRODUCED")
`, a, b, fn, goTypes[0], goTypes[1], cmpTrue, cmpFalse, fn)
	default:
		return "", "", "", false, fmt.Errorf("no safecast replay for %s", fn)
	}
	src := `package safecast

import (
	"math"
	"math/big"
	"testing"
)

` + decl.String() + `
var _ = math.Pi

// float64OrInt gives an exact big representation of any numeric value.
func float64OrInt[C IConvertable](v C) *big.Float {
	var one C = 1
	if one/2 != 0 { // float kinds
		return new(big.Float).SetPrec(300).SetFloat64(float64(v))
	}
	if v < 0 {
		return new(big.Float).SetPrec(300).SetInt64(int64(v))
	}
	return new(big.Float).SetPrec(300).SetUint64(uint64(v))
}

func verifTrunc(f *big.Float) *big.Int {
	if f.IsInf() {
		r := new(big.Int).Lsh(big.NewInt(1), 200)
		if f.Sign() < 0 {
			r.Neg(r)
		}
		return r
	}
	i, _ := f.Int(nil) // truncates toward zero
	return i
}

func verifBig[T IConvertable](v T) *big.Int {
	i, _ := float64OrInt(v).Int(nil)
	return i
}

func verifRefClamp(z *big.Int, target string) *big.Int {
	bits := map[string]int{"int": 64, "int8": 8, "int16": 16, "int32": 32, "int64": 64, "uint": 64, "uint8": 8, "uint16": 16, "uint32": 32, "uint64": 64}[target]
	var lo, hi *big.Int
	if target[0] == 'u' {
		lo = big.NewInt(0)
		hi = new(big.Int).Sub(new(big.Int).Lsh(big.NewInt(1), uint(bits)), big.NewInt(1))
	} else {
		hi = new(big.Int).Sub(new(big.Int).Lsh(big.NewInt(1), uint(bits-1)), big.NewInt(1))
		lo = new(big.Int).Neg(new(big.Int).Lsh(big.NewInt(1), uint(bits-1)))
	}
	if z.Cmp(lo) < 0 {
		return lo
	}
	if z.Cmp(hi) > 0 {
		return hi
	}
	return z
}

func TestVerifReplay(t *testing.T) {` + body + `}
`
	return "safecast", src, "^TestVerifReplay$", false, nil
}
