package main

func init() { replayDrivers["paginator-ctor"] = replayPaginatorCtor }

// replayPaginatorCtor: a first page whose item iterator cannot be obtained: the constructor must report an error.
func replayPaginatorCtor(ex *Exec, o *Obligation) (string, string, string, bool, error) {
	src := `package pagination

import (
	"context"
	"errors"
	"testing"
)

type verifBadPage struct{}

func (verifBadPage) HasNext() bool                          { return false }
func (verifBadPage) GetItemIterator() (IIterator, error)    { return nil, errors.New("no iterator") }
func (verifBadPage) GetItemCount() (int64, error)           { return 0, nil }

func TestVerifReplay(t *testing.T) {
	p, err := NewStaticPagePaginator(context.Background(),
		func(context.Context) (IStaticPage, error) { return verifBadPage{}, nil },
		func(context.Context, IStaticPage) (IStaticPage, error) { return nil, errors.New("none") })
	if p == nil && err == nil {
		t.Fatalf("REPRODUCED: NewStaticPagePaginator returned (nil, nil) although the first page's iterator could not be obtained")
	}
	t.Logf("NOT-REPRODUCED: p=%v err=%v", p, err)
}
`
	return "collection/pagination", src, "^TestVerifReplay$", false, nil
}
