package main

import (
	"fmt"
	"go/token"
	"go/types"
	"path/filepath"
	"strings"
)

// intrinsic models a few variadic / formatting standard-library functions
// that cannot be written as first-order extern contracts. Each one is an
// assumption about the dependency and is listed in the evidence.
func (ex *Exec) intrinsic(fr *Frame, st *State, key string, args []Val, sig *types.Signature, pos token.Pos) ([]Outcome, bool) {
	one := func(v ...Val) ([]Outcome, bool) { return []Outcome{{St: st, Ret: v}}, true }
	errArg := func(i int) *Term {
		if i >= len(args) {
			return nil
		}
		switch x := args[i].(type) {
		case *IfaceV:
			return ex.ifaceTerm(st, x, SErr)
		case *Term:
			if x.Sort == SErr {
				return x
			}
		}
		return nil
	}
	// pure string functions on constant arguments: evaluated with the real standard library
	if r, ok := ex.foldStringFunc(key, args); ok {
		return one(r)
	}
	switch key {
	case "errors.Is":
		a, b := errArg(0), errArg(1)
		if a == nil || b == nil {
			return nil, false
		}
		ex.usedExtern["errors.Is (intrinsic: is_ relation)"] = true
		return one(app(SBool, "is_", a, b))
	case "errors.New":
		ex.usedExtern["errors.New (intrinsic: fresh atomic error)"] = true
		r := ex.freshTerm("err_new", SErr, false)
		st.Assume(Not(Eq(r, errNil)))
		st.Assume(&Term{S: fmt.Sprintf("(forall ((x!q Err)) (! (= (is_ %s x!q) (= x!q %s)) :pattern ((is_ %s x!q))))", r.S, r.S, r.S), Sort: SBool})
		if t, ok := args[0].(*Term); ok {
			ex.declareUF("errtext", []string{SErr}, SString)
			st.Assume(Eq(app(SString, "errtext", r), t))
		}
		return one(&IfaceV{Sym: r})
	case "fmt.Errorf":
		ex.usedExtern["fmt.Errorf (intrinsic: %w wrapping)"] = true
		format, _ := args[0].(*Term)
		var elems []Val
		if len(args) > 1 {
			if sl, ok := args[1].(*SliceV); ok {
				if n, ok := constBV(sl.Len); ok {
					for i := int64(0); i < n; i++ {
						elems = append(elems, ex.sliceGet(st, sl, BVInt(i, 64, true)))
					}
				}
			}
		}
		r := ex.freshTerm("errorf", SErr, false)
		st.Assume(Not(Eq(r, errNil)))
		var wrapped []*Term
		if format != nil && strings.HasPrefix(format.S, "\"") {
			verbs := formatVerbs(format.S)
			for i, v := range verbs {
				if v == 'w' && i < len(elems) {
					if iv, ok := elems[i].(*IfaceV); ok {
						wrapped = append(wrapped, ex.ifaceTerm(st, iv, SErr))
					}
				}
			}
		} else {
			// unknown format: may wrap any error argument
			return nil, false
		}
		disj := []string{fmt.Sprintf("(= x!q %s)", r.S)}
		for _, w := range wrapped {
			disj = append(disj, fmt.Sprintf("(and (not (= %s err_nil)) (is_ %s x!q))", w.S, w.S))
		}
		st.Assume(&Term{S: fmt.Sprintf("(forall ((x!q Err)) (! (= (is_ %s x!q) (or %s false)) :pattern ((is_ %s x!q))))", r.S, strings.Join(disj, " "), r.S), Sort: SBool})
		// text of the result: the format with its verbs expanded, when all are strings/errors
		if format != nil {
			if txt := ex.sprintfTerm(st, format, elems); txt != nil {
				ex.declareUF("errtext", []string{SErr}, SString)
				st.Assume(Eq(app(SString, "errtext", r), txt))
			}
		}
		return one(&IfaceV{Sym: r})
	case "errors.Join":
		ex.usedExtern["errors.Join (intrinsic)"] = true
		sl, ok := args[0].(*SliceV)
		if !ok {
			return nil, false
		}
		n, ok := constBV(sl.Len)
		if !ok {
			return nil, false
		}
		var es []*Term
		for i := int64(0); i < n; i++ {
			if iv, ok := ex.sliceGet(st, sl, BVInt(i, 64, true)).(*IfaceV); ok {
				es = append(es, ex.ifaceTerm(st, iv, SErr))
			}
		}
		r := ex.freshTerm("joined", SErr, false)
		var allNil []*Term
		disj := []string{fmt.Sprintf("(= x!q %s)", r.S)}
		for _, e := range es {
			allNil = append(allNil, Eq(e, errNil))
			disj = append(disj, fmt.Sprintf("(and (not (= %s err_nil)) (is_ %s x!q))", e.S, e.S))
		}
		an := And(allNil...)
		st.Assume(Eq(Eq(r, errNil), an))
		st.Assume(Implies(Not(an), &Term{S: fmt.Sprintf("(forall ((x!q Err)) (! (= (is_ %s x!q) (or %s false)) :pattern ((is_ %s x!q))))", r.S, strings.Join(disj, " "), r.S), Sort: SBool}))
		return one(&IfaceV{Sym: r})
	case "fmt.Sprintf":
		format, _ := args[0].(*Term)
		var elems []Val
		if len(args) > 1 {
			if sl, ok := args[1].(*SliceV); ok {
				if n, ok := constBV(sl.Len); ok {
					for i := int64(0); i < n; i++ {
						elems = append(elems, ex.sliceGet(st, sl, BVInt(i, 64, true)))
					}
				}
			}
		}
		if format != nil {
			if txt := ex.sprintfTerm(st, format, elems); txt != nil {
				return one(txt)
			}
		}
		return one(ex.freshTerm("sprintf", SString, false))
	case "math.Pow":
		// math.Pow(2, float64(n)) for an integer n: the exact power of two (IEEE: exponent
		// field n+1023, zero mantissa) for 0 <= n <= 1023, +Inf from 1024 on. Assumption
		// about the dependency, listed in the evidence; other argument shapes fall through
		// to the extern contract in specs/num.spec.
		x, okx := args[0].(*Term)
		y, oky := args[1].(*Term)
		if okx && oky && x.S == FPConstFromBits(0x4000000000000000, SF64).S {
			if n, ok := ex.intToFloat[y.S]; ok && bvBits(n.Sort) == 64 && n.Signed {
				ex.usedExtern["math.Pow(2, float64(n)) is the exact power of two for 0<=n<=1023 and +Inf for n>=1024 (intrinsic)"] = true
				r := ex.freshTerm("pow2", SF64, false)
				inr := And(app(SBool, "bvsge", n, BVInt(0, 64, true)), app(SBool, "bvsle", n, BVInt(1023, 64, true)))
				exact := &Term{S: fmt.Sprintf("(fp #b0 ((_ extract 10 0) (bvadd %s (_ bv1023 64))) #x0000000000000)", n.S), Sort: SF64}
				st.Assume(Implies(inr, Eq(r, exact)))
				st.Assume(Implies(app(SBool, "bvsgt", n, BVInt(1023, 64, true)), Eq(r, &Term{S: "(_ +oo 11 53)", Sort: SF64})))
				return one(r)
			}
		}
	case "strings.Contains":
		a, b := strArg(args, 0), strArg(args, 1)
		if a != nil && b != nil {
			return one(app(SBool, "str.contains", a, b))
		}
	case "strings.HasPrefix":
		a, b := strArg(args, 0), strArg(args, 1)
		if a != nil && b != nil {
			return one(app(SBool, "str.prefixof", b, a))
		}
	case "strings.HasSuffix":
		a, b := strArg(args, 0), strArg(args, 1)
		if a != nil && b != nil {
			return one(app(SBool, "str.suffixof", b, a))
		}
	case "(time.Duration).Milliseconds", "(time.Duration).Microseconds", "(time.Duration).Nanoseconds":
		// integer division of the nanosecond count (source of package time), truncated toward zero like Go's /
		if d, ok := args[0].(*Term); ok && isBV(d.Sort) {
			div := map[string]int64{"(time.Duration).Milliseconds": 1000000, "(time.Duration).Microseconds": 1000, "(time.Duration).Nanoseconds": 1}[key]
			r := app(d.Sort, "bvsdiv", d, BVInt(div, 64, true))
			r.Signed = true
			return one(ex.define("ms", r))
		}
	case "strings.TrimSuffix":
		a, b := strArg(args, 0), strArg(args, 1)
		if a != nil && b != nil {
			return one(ex.define("trimsuffix", &Term{S: fmt.Sprintf("(ite (str.suffixof %s %s) (str.substr %s 0 (- (str.len %s) (str.len %s))) %s)", b.S, a.S, a.S, a.S, b.S, a.S), Sort: SString}))
		}
	case "strings.TrimPrefix":
		a, b := strArg(args, 0), strArg(args, 1)
		if a != nil && b != nil {
			return one(ex.define("trimprefix", &Term{S: fmt.Sprintf("(ite (str.prefixof %s %s) (str.substr %s (str.len %s) (- (str.len %s) (str.len %s))) %s)", b.S, a.S, a.S, b.S, a.S, b.S, a.S), Sort: SString}))
		}
	case "strings.ToLower", "strings.TrimSpace", "strings.ToUpper":
		if a := strArg(args, 0); a != nil {
			name := "str_" + strings.ToLower(strings.TrimPrefix(key, "strings."))
			ex.declareUF(name, []string{SString}, SString)
			return one(app(SString, name, a))
		}
	case "os.IsTimeout", "os.IsExist", "os.IsNotExist", "os.IsPermission":
		if e := errArg(0); e != nil {
			name := "os_" + strings.TrimPrefix(key, "os.")
			ex.declareUF(name, []string{SErr}, SBool)
			return one(app(SBool, name, e))
		}
	case "path/filepath.Clean", "path/filepath.Dir", "path/filepath.Base", "path/filepath.Ext", "path/filepath.ToSlash", "path/filepath.FromSlash":
		if a := strArg(args, 0); a != nil {
			if c, ok := constStr(a); ok {
				switch key {
				case "path/filepath.Clean":
					return one(StrConst(filepath.Clean(c)))
				case "path/filepath.Dir":
					return one(StrConst(filepath.Dir(c)))
				case "path/filepath.Base":
					return one(StrConst(filepath.Base(c)))
				case "path/filepath.Ext":
					return one(StrConst(filepath.Ext(c)))
				default:
					return one(a)
				}
			}
			name := map[string]string{"path/filepath.Clean": "cleanOf", "path/filepath.Dir": "dirOf", "path/filepath.Base": "baseOf", "path/filepath.Ext": "extOf",
				"path/filepath.ToSlash": "", "path/filepath.FromSlash": ""}[key]
			if name == "" {
				return one(a) // linux: separators are already slashes
			}
			ex.declareUF(name, []string{SString}, SString)
			ex.usedExtern[key+" as the uninterpreted function "+name+" (axioms in specs/path.spec)"] = true
			return one(app(SString, name, a))
		}
	case "path/filepath.Join":
		if sl, ok := args[0].(*SliceV); ok {
			if n, ok := constBV(sl.Len); ok && n >= 1 {
				var parts []*Term
				allConst := true
				for i := int64(0); i < n; i++ {
					t, _ := ex.sliceGet(st, sl, BVInt(i, 64, true)).(*Term)
					if t == nil || t.Sort != SString {
						return nil, false
					}
					if _, c := constStr(t); !c {
						allConst = false
					}
					parts = append(parts, t)
				}
				if allConst {
					var cs []string
					for _, t := range parts {
						c, _ := constStr(t)
						cs = append(cs, c)
					}
					return one(StrConst(filepath.Join(cs...)))
				}
				ex.declareUF("joinOf", []string{SString, SString}, SString)
				ex.usedExtern["path/filepath.Join as the uninterpreted function joinOf (axioms in specs/path.spec)"] = true
				cur := parts[0]
				if n == 1 {
					ex.declareUF("cleanOf", []string{SString}, SString)
					return one(app(SString, "cleanOf", cur))
				}
				for _, t := range parts[1:] {
					cur = app(SString, "joinOf", cur, t)
				}
				return one(cur)
			}
		}
	case "(error).Error":
		if e := errArg(0); e != nil {
			if txt, ok := ex.sentinelText[e.S]; ok {
				return one(StrConst(txt))
			}
			ex.declareUF("errtext", []string{SErr}, SString)
			return one(app(SString, "errtext", e))
		}
	}
	return nil, false
}

func strArg(args []Val, i int) *Term {
	if i < len(args) {
		if t, ok := args[i].(*Term); ok && t.Sort == SString {
			return t
		}
	}
	return nil
}

// formatVerbs lists the verbs of a constant format string given as an SMT literal.
func formatVerbs(lit string) []byte {
	s := lit[1 : len(lit)-1]
	var vs []byte
	for i := 0; i < len(s); i++ {
		if s[i] != '%' {
			continue
		}
		i++
		for i < len(s) && strings.ContainsRune("+-# 0123456789.[]*", rune(s[i])) {
			i++
		}
		if i < len(s) {
			if s[i] == '%' {
				continue
			}
			vs = append(vs, s[i])
		}
	}
	return vs
}

// sprintfTerm expands a constant format whose verbs are %v/%s/%w over string
// or error arguments into a str.++ term; nil when that is not possible.
func (ex *Exec) sprintfTerm(st *State, format *Term, elems []Val) *Term {
	if !strings.HasPrefix(format.S, "\"") || strings.Contains(format.S, "\\u{") {
		return nil
	}
	s := strings.ReplaceAll(format.S[1:len(format.S)-1], "\"\"", "\"")
	var parts []*Term
	var lit strings.Builder
	arg := 0
	flush := func() {
		if lit.Len() > 0 {
			parts = append(parts, StrConst(lit.String()))
			lit.Reset()
		}
	}
	for i := 0; i < len(s); i++ {
		if s[i] != '%' {
			lit.WriteByte(s[i])
			continue
		}
		i++
		if i >= len(s) {
			return nil
		}
		switch s[i] {
		case '%':
			lit.WriteByte('%')
		case 'v', 's', 'w':
			if arg >= len(elems) {
				return nil
			}
			flush()
			var t *Term
			switch x := elems[arg].(type) {
			case *Term:
				if x.Sort == SString {
					t = x
				}
			case *IfaceV:
				if x.Dyn != nil {
					if tv, ok := x.V.(*Term); ok && tv.Sort == SString {
						t = tv
					}
				}
				if t == nil && ((x.Sym != nil && x.Sym.Sort == SErr) || (x.Dyn != nil && implementsError(x.Dyn))) {
					ex.declareUF("errtext", []string{SErr}, SString)
					t = app(SString, "errtext", ex.ifaceTerm(st, x, SErr))
				}
			}
			if t == nil {
				t = ex.freshTerm("fmtarg", SString, false)
			}
			parts = append(parts, t)
			arg++
		default:
			// other verbs: an unknown piece of text
			flush()
			parts = append(parts, ex.freshTerm("fmtarg", SString, false))
			arg++
		}
	}
	flush()
	switch len(parts) {
	case 0:
		return StrConst("")
	case 1:
		return parts[0]
	}
	return app(SString, "str.++", parts...)
}

// constStr decodes an SMT string literal.
func constStr(t *Term) (string, bool) {
	if t == nil || t.Sort != SString || !strings.HasPrefix(t.S, "\"") {
		return "", false
	}
	s := t.S[1 : len(t.S)-1]
	s = strings.ReplaceAll(s, "\"\"", "\"")
	var b strings.Builder
	for i := 0; i < len(s); i++ {
		if strings.HasPrefix(s[i:], "\\u{") {
			j := strings.Index(s[i:], "}")
			var v int
			fmt.Sscanf(s[i+3:i+j], "%x", &v)
			b.WriteByte(byte(v))
			i += j
			continue
		}
		b.WriteByte(s[i])
	}
	return b.String(), true
}

func (ex *Exec) foldStringFunc(key string, args []Val) (Val, bool) {
	var cs []string
	for _, a := range args {
		t, ok := a.(*Term)
		if !ok {
			return nil, false
		}
		c, ok := constStr(t)
		if !ok {
			return nil, false
		}
		cs = append(cs, c)
	}
	b := func(v bool) (Val, bool) {
		if v {
			return TTrue, true
		}
		return TFalse, true
	}
	switch {
	case key == "strings.TrimSpace" && len(cs) == 1:
		return StrConst(strings.TrimSpace(cs[0])), true
	case key == "strings.ToLower" && len(cs) == 1:
		return StrConst(strings.ToLower(cs[0])), true
	case key == "strings.ToUpper" && len(cs) == 1:
		return StrConst(strings.ToUpper(cs[0])), true
	case key == "strings.Contains" && len(cs) == 2:
		return b(strings.Contains(cs[0], cs[1]))
	case key == "strings.HasPrefix" && len(cs) == 2:
		return b(strings.HasPrefix(cs[0], cs[1]))
	case key == "strings.HasSuffix" && len(cs) == 2:
		return b(strings.HasSuffix(cs[0], cs[1]))
	case key == "strings.EqualFold" && len(cs) == 2:
		return b(strings.EqualFold(cs[0], cs[1]))
	case key == "strings.TrimSuffix" && len(cs) == 2:
		return StrConst(strings.TrimSuffix(cs[0], cs[1])), true
	case key == "strings.TrimPrefix" && len(cs) == 2:
		return StrConst(strings.TrimPrefix(cs[0], cs[1])), true
	}
	return nil, false
}
