package main

import (
	"fmt"
	"go/token"
	"go/types"
	"os"
	"regexp"
	"strings"

	"golang.org/x/tools/go/ssa"
)

func (ex *Exec) activeContract(key string) *Contract {
	c := ex.lib.Contracts[key]
	if c == nil {
		return nil
	}
	if !tagActive(c.Tags, ex.prop) {
		return nil
	}
	return c
}

// doCall evaluates operands and dispatches.
func (ex *Exec) doCall(fr *Frame, st *State, cc *ssa.CallCommon, ins ssa.Value, pos token.Pos) []Outcome {
	var args []Val
	for _, a := range cc.Args {
		args = append(args, ex.val(fr, st, a))
	}
	fv := ex.val(fr, st, cc.Value)
	var rt types.Type
	if ins != nil {
		rt = ins.Type()
	}
	return ex.callValue(fr, st, cc, fv, args, pos, rt)
}

func resultTypes(sig *types.Signature) []types.Type {
	var ts []types.Type
	for i := 0; i < sig.Results().Len(); i++ {
		ts = append(ts, sig.Results().At(i).Type())
	}
	return ts
}

func (ex *Exec) freshResults(st *State, sig *types.Signature, hint string) []Val {
	var rs []Val
	for i, t := range resultTypes(sig) {
		rs = append(rs, ex.freshVal(st, t, fmt.Sprintf("%s_r%d", hint, i)))
	}
	return rs
}

// callValue performs a call of fv(args) following the rules of DESIGN §2.2.
func (ex *Exec) callValue(fr *Frame, st *State, cc *ssa.CallCommon, fv Val, args []Val, pos token.Pos, rt types.Type) []Outcome {
	sig := cc.Signature()
	// ---- interface method invocation
	if cc.IsInvoke() {
		recv := fv
		key := cc.Method.FullName()
		{
			msig := cc.Method.Type().(*types.Signature)
			ns, ts := []string{"this"}, []types.Type{cc.Value.Type()}
			for i := 0; i < msig.Params().Len(); i++ {
				n := msig.Params().At(i).Name()
				if n == "" || n == "_" {
					n = fmt.Sprintf("arg%d", i)
				}
				ns = append(ns, n)
				ts = append(ts, msig.Params().At(i).Type())
			}
			ex.checkAsserts(fr, st, key, ns, ts, append([]Val{recv}, args...), pos)
			if m := ex.vfsMethodFor(cc); m != nil {
				mns, _ := fnParamInfo(m)
				ex.freshCheck(fr, st, funcKey(m), mns, pos)
			} else {
				ex.freshCheck(fr, st, key, ns, pos)
			}
		}
		if iv, ok := recv.(*IfaceV); ok && iv.Dyn != nil {
			// dynamic type known on this path: static dispatch
			if m := ex.prog.LookupMethod(iv.Dyn, cc.Method.Pkg(), cc.Method.Name()); m != nil {
				return ex.callStatic(fr, st, m, append([]Val{iv.V}, args...), pos, sig, key)
			}
		}
		if c := ex.activeContract(key); c != nil {
			return ex.applyContract(fr, st, c, cc.Method, append([]Val{recv}, args...), pos, sig, true)
		}
		if r, ok := ex.intrinsic(fr, st, key, append([]Val{recv}, args...), sig, pos); ok {
			return r
		}
		// DESIGN §2.2 rule 1b: values of the filesystem interfaces (FS, ICloseableFS) are *VFS
		// (the only implementation in /repo apart from generated mocks): use that method's contract
		if m := ex.vfsMethodFor(cc); m != nil {
			if c := ex.activeContract(funcKey(m)); c != nil && !c.Flags["inline"] {
				ex.usedExtern["dispatch: values of "+shortType(cc.Value.Type())+" are "+shortKey(funcKey(m))[:strings.LastIndex(shortKey(funcKey(m)), ")")+1]] = true
				ns, ts := fnParamInfo(m)
				ex.checkAsserts(fr, st, funcKey(m), ns, ts, append([]Val{recv}, args...), pos)
				return ex.applyContractFn(fr, st, c, m, nil, append([]Val{recv}, args...), pos)
			}
		}
		return ex.havocCall(fr, st, key, append([]Val{recv}, args...), sig, pos)
	}
	switch f := fv.(type) {
	case *FuncV:
		if f.Fn != nil {
			a := args
			if f.Recv != nil {
				a = append([]Val{f.Recv}, args...)
			}
			return ex.callStaticBind(fr, st, f.Fn, a, f.Bind, pos, sig)
		}
		if b, ok := cc.Value.(*ssa.Builtin); ok {
			return ex.builtin(fr, st, b.Name(), args, cc, rt, pos)
		}
		if f.Sym != nil && strings.HasPrefix(f.Sym.S, "builtin_") {
			return ex.builtin(fr, st, strings.TrimPrefix(f.Sym.S, "builtin_"), args, cc, rt, pos)
		}
	}
	// a direct call of a function-typed PARAMETER of the function being executed is an assert site "@call:<name>"
	if pn := paramNameOfValue(fr.fn, cc.Value); pn != "" {
		var names []string
		var ptypes []types.Type
		for i := 0; i < sig.Params().Len(); i++ {
			names = append(names, fmt.Sprintf("p%d", i))
			ptypes = append(ptypes, sig.Params().At(i).Type())
		}
		ex.checkAsserts(fr, st, "call:"+pn, names, ptypes, args, pos)
	}
	// function-typed value not known on this path: a contract may be given for its NAMED function type
	// ("extern funcvalue:context.CancelFunc"): what every value of that type is assumed to do when called
	if nt, ok := cc.Value.Type().(*types.Named); ok && nt.Obj() != nil && nt.Obj().Pkg() != nil {
		key := "funcvalue:" + nt.Obj().Pkg().Path() + "." + nt.Obj().Name()
		if c := ex.activeContract(key); c != nil {
			names := []string{"callee"}
			ptypes := []types.Type{cc.Value.Type()}
			for i := 0; i < sig.Params().Len(); i++ {
				names = append(names, fmt.Sprintf("p%d", i))
				ptypes = append(ptypes, sig.Params().At(i).Type())
			}
			ex.usedExtern["calls of values of type "+nt.Obj().Pkg().Path()+"."+nt.Obj().Name()+" (assumed contract "+key+")"] = true
			return ex.applyContractNamed(fr, st, c, names, ptypes, sig, append([]Val{fv}, args...), pos, nil)
		}
	}
	return ex.havocCall(fr, st, "func-value", args, sig, pos)
}

func (ex *Exec) callStatic(fr *Frame, st *State, fn *ssa.Function, args []Val, pos token.Pos, sig *types.Signature, viaKey string) []Outcome {
	return ex.callStaticBind(fr, st, fn, args, nil, pos, sig)
}

// checkAsserts discharges the "assert @callee" clauses of the function under
// proof at a call of that callee: the expression sees the callee's parameters
// by name and the caller's locals.
func (ex *Exec) checkAsserts(fr *Frame, st *State, key string, names []string, ptypes []types.Type, args []Val, pos token.Pos) {
	c := ex.lib.Contracts[ex.curKey]
	if c == nil {
		return
	}
	var env *CEnv
	for _, cl := range c.Clauses {
		if cl.Kind != "assert" || !tagActive(cl.Tags, ex.prop) {
			continue
		}
		if strings.HasPrefix(cl.Names[0], "flag:") {
			fl := strings.TrimPrefix(cl.Names[0], "flag:")
			if strings.HasPrefix(fl, "has-param:") {
				// has-param:<name>: a /repo callee with a []string parameter of that name
				// has-param:<name>|<type> (type defaults to []string)
				want, wantT, ok := strings.TrimPrefix(fl, "has-param:"), "[]string", false
				if k := strings.Index(want, "|"); k >= 0 {
					want, wantT = want[:k], want[k+1:]
				}
				for i, n := range names {
					if n == want && i < len(ptypes) && ptypes[i] != nil && ptypes[i].String() == wantT && strings.Contains(key, "github.com/ARM-software/golang-utils") {
						ok = true
					}
				}
				if !ok {
					continue
				}
			} else if !ex.calleeHasFlag(key, fl, names) {
				continue
			}
		} else if !strings.Contains(key, cl.Names[0]) && !strings.HasSuffix(bareKey(key), cl.Names[0]) {
			continue
		}
		if env == nil {
			env = ex.localEnv(fr, st)
			if fr.depth > 0 && ex.topFrame != nil {
				// parameters of the function under proof stay visible inside inlined callees and closures
				for i, p := range ex.topFrame.fn.Params {
					if _, dup := env.vars[p.Name()]; !dup && i < len(ex.topFrame.args) {
						env.vars[p.Name()] = TV{ex.topFrame.args[i], p.Type()}
					}
				}
				// ... and so do its locals (a refusal moved into a helper is still justified in terms of the counters
				// of the function under proof): the frame of THIS path, found through the chain of inlining callers
				top := fr
				for top.caller != nil {
					top = top.caller
				}
				if top != fr && top.fn == ex.topFrame.fn {
					for n, v := range ex.localEnv(top, st).vars {
						if _, dup := env.vars[n]; !dup {
							env.vars[n] = v
						}
					}
				}
			}
			for i, n := range names {
				if i < len(args) {
					// the caller's own names win over the callee's parameter names
					if _, clash := env.vars[n]; !clash {
						env.vars[n] = TV{args[i], ptypes[i]}
					}
					env.vars["callee_"+n] = TV{args[i], ptypes[i]}
				}
			}
			// a renamed parameter of the callee is still reachable under the name its contract was written with
			for old, i := range ex.lib.Contracts[key].paramAliases(names) {
				if i < len(args) {
					env.vars["callee_"+old] = TV{args[i], ptypes[i]}
				}
			}
		}
		label := cl.Label
		if label == "" {
			label = fmt.Sprint(cl.Ord)
		}
		site := lastSeg(cl.Names[0])
		if strings.HasPrefix(cl.Names[0], "flag:") {
			site = lastSeg(key)
			if fr.depth > 0 {
				site = lastSeg(funcKey(fr.fn)) + ">" + site
			}
		}
		ord := ex.nextCallOrd(fr, "assert:"+site+":"+label, pos)
		if ex.secondAttempt {
			site += "(retry)"
		}
		g := ex.evalBool(cl.E, env)
		ex.addObl(st, "assert", ex.oblName("assert", fmt.Sprintf("#%s@%s#%d", label, site, ord)), g, pos, cl.Text)
		cl.Reached = true
	}
}

// calleeHasFlag: flags written in contracts, plus the synthesized ones for /repo functions:
//
//	repo-mutating      may reach a mutating backend operation and takes no ctx parameter
//	repo-mutating-ctx  may reach a mutating backend operation and takes a ctx parameter
//	repo-backend       may reach a backend operation and takes no ctx parameter
func (ex *Exec) calleeHasFlag(key, flag string, paramNames []string) bool {
	if c := ex.lib.Contracts[key]; c != nil && c.Flags[flag] {
		return true
	}
	hasCtx := false
	for _, n := range paramNames {
		if n == "ctx" {
			hasCtx = true
		}
	}
	if strings.HasPrefix(flag, "repo-mutating-without:") {
		want := strings.TrimPrefix(flag, "repo-mutating-without:")
		for _, n := range paramNames {
			if n == want {
				return false
			}
		}
		return ex.reachMutating[key]
	}
	switch flag {
	case "repo-mutating":
		return ex.reachMutating[key] && !hasCtx
	case "repo-mutating-ctx":
		return ex.reachMutating[key] && hasCtx
	case "repo-backend":
		return ex.reachBackend[key] && !hasCtx
	}
	return false
}

func fnParamInfo(fn *ssa.Function) ([]string, []types.Type) {
	var names []string
	var ts []types.Type
	for _, p := range fn.Params {
		names = append(names, p.Name())
		ts = append(ts, p.Type())
	}
	return names, ts
}

// blockInLoop: the block belongs to a natural loop of its function.
func (ex *Exec) blockInLoop(fn *ssa.Function, b *ssa.BasicBlock) bool {
	for _, li := range ex.info(fn).Loops {
		if li.Blocks[b] {
			return true
		}
	}
	return false
}

// freshCheck implements the per-iteration clause of C09 ("once the context has ended only a
// bounded number of further backend operations, however much work remains"): inside a loop,
// every backend operation must be preceded, in the same iteration, by a context test.
func (ex *Exec) freshCheck(fr *Frame, st *State, key string, names []string, pos token.Pos) {
	if ex.prop != "C09" || ex.topFrame == nil || !hasCtxParam(ex.topFrame.fn) {
		return
	}
	c := ex.lib.Contracts[key]
	hasCtx := false
	for _, n := range names {
		if n == "ctx" {
			hasCtx = true
		}
	}
	if (c != nil && c.Flags["ctx-check"]) || (hasCtx && ex.reachBackend[key]) {
		// a context test, or a context-aware operation (which tests its context first: its own C09 obligations)
		st.fresh = true
		return
	}
	isOp := (c != nil && c.Flags["backend-op"]) || (ex.reachBackend[key] && !hasCtx)
	if !isOp {
		return
	}
	if !(fr.inLoopCtx || (fr.curBlock != nil && ex.blockInLoop(fr.fn, fr.curBlock))) {
		return
	}
	site := lastSeg(key)
	ord := ex.nextCallOrd(fr, "fresh:"+site, pos)
	goal := TFalse
	if st.fresh {
		goal = TTrue
	}
	ex.addObl(st, "assert", ex.oblName("assert", fmt.Sprintf("#ctx-per-iteration@%s#%d", site, ord)), goal, pos,
		"inside a loop a backend operation is preceded, in the same iteration, by a context test")
	st.fresh = true // report each gap once per path
}

func (ex *Exec) callStaticBind(fr *Frame, st *State, fn *ssa.Function, args []Val, bind []Val, pos token.Pos, sig *types.Signature) []Outcome {
	key := funcKey(fn)
	fsig := fn.Signature
	if ex.lockOp(fr, st, key, args, pos) {
		return []Outcome{{St: st}}
	}
	ex.guardedArgs(fr, st, fn, args, pos)
	ex.calleeSections(fr, st, fn, args)
	{
		ns, ts := fnParamInfo(fn)
		ex.checkAsserts(fr, st, key, ns, ts, args, pos)
		ex.freshCheck(fr, st, key, ns, pos)
	}
	// synthetic wrappers: bound method closures and thunks
	if fn.Synthetic != "" && strings.HasPrefix(fn.Synthetic, "bound method wrapper") && len(bind) == 1 {
		// $bound: call the method with the bound receiver
		if obj, ok := fn.Object().(*types.Func); ok {
			recv := bind[0]
			if iv, ok := recv.(*IfaceV); ok {
				if iv.Dyn != nil {
					if m := ex.prog.LookupMethod(iv.Dyn, obj.Pkg(), obj.Name()); m != nil {
						return ex.callStaticBind(fr, st, m, append([]Val{iv.V}, args...), nil, pos, sig)
					}
				}
				k := obj.FullName()
				if c := ex.activeContract(k); c != nil {
					return ex.applyContract(fr, st, c, obj, append([]Val{recv}, args...), pos, fsig, true)
				}
				if r, ok := ex.intrinsic(fr, st, k, append([]Val{recv}, args...), fsig, pos); ok {
					return r
				}
				return ex.havocCall(fr, st, k, append([]Val{recv}, args...), fsig, pos)
			}
			if m := ex.prog.FuncValue(obj); m != nil {
				return ex.callStaticBind(fr, st, m, append([]Val{recv}, args...), nil, pos, sig)
			}
		}
	}
	if !isRepoFunc(fn) {
		if r, ok := ex.intrinsic(fr, st, key, args, fsig, pos); ok {
			return r
		}
	}
	if c := ex.activeContract(key); c != nil && !c.Flags["inline"] && !ex.emptyContractOfSmallHelper(c, fn) {
		// rule 1: by contract, the body is not looked at
		var obj *types.Func
		if o, ok := fn.Object().(*types.Func); ok {
			obj = o
		}
		if o := fn.Origin(); o != nil {
			if oo, ok := o.Object().(*types.Func); ok {
				obj = oo
			}
		}
		return ex.applyContractFn(fr, st, c, fn, obj, args, pos)
	}
	if r, ok := ex.intrinsic(fr, st, key, args, fsig, pos); ok {
		return r
	}
	inlinable := len(fn.Blocks) > 0 && (isRepoFunc(fn) || ex.lib.Contracts["inline:"+key] != nil)
	if inlinable && fn.Parent() == nil {
		// size limit: large helpers (tables, decoders) are not inlined; they count as
		// callees without contract (results unconstrained) and are listed in the evidence
		n := 0
		for _, b := range fn.Blocks {
			n += len(b.Instrs)
		}
		limit := 500
		if !samePackage(fn, ex.topFrame.fn) && !(ex.lib.Contracts[key] != nil && ex.lib.Contracts[key].Flags["inline"]) {
			// functions of other /repo packages are used through their contracts only
			limit = 0
		}
		if n > limit {
			ex.warn("callee %s not inlined (%d instructions): treated as arbitrary", shortKey(key), n)
			inlinable = false
		}
	}
	if inlinable {
		// rule 2/3: inline
		for _, s := range fr.stack {
			if s == fn {
				ex.errs = append(ex.errs, fmt.Sprintf("recursive function %s needs a contract (reached from %s)", key, ex.curKey))
				return ex.havocCall(fr, st, key, args, fsig, pos)
			}
		}
		if fr.depth >= ex.maxDepth {
			ex.warn("inline depth limit at %s (from %s)", key, ex.curKey)
			return ex.havocCall(fr, st, key, args, fsig, pos)
		}
		ex.inlined[shortKey(key)] = true
		ex.inlineCount[shortKey(key)]++
		st.Tracef("%s: inline %s", ex.pos(pos), shortKey(key))
		nfr := &Frame{fn: fn, env: map[ssa.Value]Val{}, loopCut: map[*ssa.BasicBlock]bool{}, args: args, depth: fr.depth + 1, caller: fr,
			stack: append(append([]*ssa.Function(nil), fr.stack...), fn)}
		nfr.inLoopCtx = fr.inLoopCtx || (fr.curBlock != nil && ex.blockInLoop(fr.fn, fr.curBlock))
		for i, p := range fn.Params {
			if i < len(args) {
				nfr.env[p] = args[i]
			}
		}
		ex.bindFreeVars(nfr, fn, bind)
		return ex.runBlock(nfr, st, fn.Blocks[0], 0)
	}
	return ex.havocCall(fr, st, key, args, fsig, pos)
}

// havocCall is rule 4: results are fresh, reachable heap is havocked.
func (ex *Exec) havocCall(fr *Frame, st *State, key string, args []Val, sig *types.Signature, pos token.Pos) []Outcome {
	ex.havocked[shortKey(key)] = true
	if ex.contextOnly[key] {
		// a helper left to be checked in its callers' context must be executed there: undecided otherwise
		ex.errs = append(ex.errs, fmt.Sprintf("helper %s is checked only in the context of its callers but could not be executed in %s (size, depth or recursion)", shortKey(key), shortKey(ex.curKey)))
	}
	st.Tracef("%s: call %s (no contract: results unconstrained)", ex.pos(pos), shortKey(key))
	if !ex.knownPure(key) {
		ex.markEscaped(st, args)
		ex.havocHeap(st)
		ex.havocArgs(st, args)
	}
	return []Outcome{{St: st, Ret: ex.freshResults(st, sig, sanitizeName(lastSeg(key)))}}
}

func lastSeg(k string) string {
	if i := strings.LastIndexAny(k, "./"); i >= 0 {
		return k[i+1:]
	}
	return k
}

func (ex *Exec) markEscaped(st *State, args []Val) {
	var walk func(v Val, d int)
	walk = func(v Val, d int) {
		if d > 4 {
			return
		}
		switch x := v.(type) {
		case *Ptr:
			if x.Cell != nil && !x.Cell.Escaped {
				x.Cell.Escaped = true
				walk(st.cells[x.Cell], d+1)
			}
		case *IfaceV:
			walk(x.V, d+1)
		case *StructV:
			for _, f := range x.F {
				walk(f, d+1)
			}
		case *FuncV:
			for _, b := range x.Bind {
				walk(b, d+1)
			}
		case *SliceV:
			if x.ArrPtr != nil {
				walk(x.ArrPtr, d+1)
			}
		case *ArrayV:
			for _, e := range x.E {
				walk(e, d+1)
			}
		}
	}
	for _, a := range args {
		walk(a, 0)
	}
}

var pureFuncs = map[string]bool{
	"fmt.Sprintf": true, "fmt.Sprint": true, "strings.Contains": true, "strings.HasPrefix": true, "strings.HasSuffix": true,
	"strings.ToLower": true, "strings.TrimSpace": true, "strings.Split": true, "strings.Join": true, "path/filepath.Join": true,
	"path/filepath.Clean": true, "path/filepath.Dir": true, "path/filepath.Base": true, "errors.Is": true, "errors.New": true,
	"fmt.Errorf": true, "ssa:deferstack": true, "time.Now": true, "time.Since": true, "time.Until": true, "strings.TrimSuffix": true,
	"strings.TrimPrefix": true, "strings.ReplaceAll": true, "strings.EqualFold": true, "errors.As": false, "strconv.Itoa": true,
	"strconv.ParseInt": true, "math.Pow": true, "(error).Error": true, "path/filepath.Ext": true, "path/filepath.Rel": true,
	"path/filepath.IsAbs": true, "path/filepath.ToSlash": true, "path/filepath.FromSlash": true, "strings.Index": true,
	"strings.LastIndex": true, "strings.Fields": true, "strings.TrimRight": true, "strings.TrimLeft": true, "strings.Trim": true,
	"strings.ToUpper": true, "strings.Count": true, "strings.Repeat": true, "strings.SplitN": true, "unicode/utf8.ValidString": true,
	"(time.Time).After": true, "(time.Time).Before": true, "(time.Time).Sub": true, "(time.Time).Add": true, "(time.Time).IsZero": true,
	"(time.Duration).Milliseconds": true, "(time.Duration).Seconds": true, "(time.Duration).String": true, "(time.Time).UnixNano": true,
	"(*regexp.Regexp).MatchString": true, "regexp.Compile": true, "regexp.MustCompile": true, "(*regexp.Regexp).String": true,
	"github.com/ARM-software/golang-utils/utils/reflection.IsEmpty": true,
	"(fmt.Stringer).String": true, "os/user.Current": true, "os.IsTimeout": true, "os.IsExist": true, "os.IsNotExist": true, "os.IsPermission": true, "errors.Unwrap": true,
	"time.Parse": true, "net/http.ParseTime": true, "(time.Time).Equal": true, "(time.Time).Unix": true,
}

func (ex *Exec) knownPure(key string) bool {
	if pureFuncs[key] {
		return true
	}
	if c := ex.lib.Contracts[key]; c != nil && c.Flags["pure"] {
		return true
	}
	return false
}

// ------------------------------------------------------------ contracts at call sites

type TV struct {
	V Val
	T types.Type
}

func (ex *Exec) applyContractFn(fr *Frame, st *State, c *Contract, fn *ssa.Function, obj *types.Func, args []Val, pos token.Pos) []Outcome {
	// names from the ssa function (handles instantiated generics: concrete types)
	var names []string
	var ptypes []types.Type
	for _, p := range fn.Params {
		names = append(names, p.Name())
		ptypes = append(ptypes, p.Type())
	}
	return ex.applyContractNamed(fr, st, c, names, ptypes, fn.Signature, args, pos, fn)
}

func (ex *Exec) applyContract(fr *Frame, st *State, c *Contract, obj *types.Func, args []Val, pos token.Pos, sig *types.Signature, hasRecv bool) []Outcome {
	osig := obj.Type().(*types.Signature)
	var names []string
	var ptypes []types.Type
	if hasRecv {
		names = append(names, "this")
		if osig.Recv() != nil {
			ptypes = append(ptypes, osig.Recv().Type())
		} else {
			ptypes = append(ptypes, nil)
		}
	}
	for i := 0; i < osig.Params().Len(); i++ {
		n := osig.Params().At(i).Name()
		if n == "" || n == "_" {
			n = fmt.Sprintf("arg%d", i)
		}
		names = append(names, n)
		ptypes = append(ptypes, osig.Params().At(i).Type())
	}
	return ex.applyContractNamed(fr, st, c, names, ptypes, osig, args, pos, nil)
}

func (ex *Exec) applyContractNamed(fr *Frame, st *State, c *Contract, names []string, ptypes []types.Type, sig *types.Signature, args []Val, pos token.Pos, fn *ssa.Function) []Outcome {
	c.Used = true
	key := c.Key
	// variadic argument arrays are temporaries built by the caller: capture their contents now, so that the
	// contract can talk about them after the call's effects have been applied
	args = append([]Val(nil), args...)
	for i, a := range args {
		if sl, ok := a.(*SliceV); ok && sl.ArrPtr != nil && sl.ArrPtr.Cell != nil {
			args[i] = ex.sliceToHeap(st, sl)
		}
	}
	for _, a := range args {
		if fv, ok := a.(*FuncV); ok && fv.Fn != nil && isBoundMethodWrapper(fv.Fn) && len(fv.Bind) == 1 && fr.depth < ex.maxDepth && c.Flags["repeats"] {
			// a method value (l.attempt) handed to a callee that runs it synchronously, possibly several times (retry.Do):
			// like a closure that captured the receiver only. (Method values handed to other callees - schedulers,
			// monitors - run later or on another goroutine and are not executed here.)
			if obj, ok := fv.Fn.Object().(*types.Func); ok {
				if m := ex.boundTarget(obj, fv.Bind[0]); m != nil && isRepoFunc(m) {
					st2 := st.Clone()
					ex.havocHeapOnly(st2)
					var cargs []Val
					for _, p := range fv.Fn.Params {
						cargs = append(cargs, ex.freshVal(st2, p.Type(), "cb_"+p.Name()))
					}
					st2.Tracef("%s: method value %s may be invoked by %s", ex.pos(pos), m.Name(), shortKey(key))
					outs := ex.callStaticBind(fr, st2, fv.Fn, cargs, fv.Bind, pos, fv.Fn.Signature)
					if c.Flags["repeats"] {
						for _, o := range outs {
							if o.Panic || len(outs) > 16 {
								continue
							}
							if len(o.Ret) == 1 {
								if iv, ok := o.Ret[0].(*IfaceV); ok {
									if iv.Nil {
										continue
									}
									if iv.Dyn == nil && iv.Sym != nil && iv.Sym.Sort == SErr {
										o.St.Assume(Not(Eq(iv.Sym, errNil)))
									}
								}
							}
							o.St.Tracef("%s: %s retries the method value (second attempt)", ex.pos(pos), shortKey(key))
							ex.secondAttempt = true
							ex.callStaticBind(fr, o.St, fv.Fn, cargs, fv.Bind, pos, fv.Fn.Signature)
							ex.secondAttempt = false
						}
					}
				}
			}
		}
		if fv, ok := a.(*FuncV); ok && fv.Fn != nil && fv.Fn.Parent() != nil && isRepoFunc(fv.Fn) && fr.depth < ex.maxDepth {
			// a callee used by contract may invoke the closure it is handed, at any time and with any
			// arguments: run the body once on a copy of the state (heap unknown) so that the obligations
			// inside it are generated; its effects on captured variables are havoc for the caller
			st2 := st.Clone()
			// the callee may have changed the heap before it calls the closure; the variables the closure captured
			// can only be changed by the closure itself
			ex.havocHeapOnly(st2)
			var cargs []Val
			for _, p := range fv.Fn.Params {
				cargs = append(cargs, ex.freshVal(st2, p.Type(), "cb_"+p.Name()))
			}
			st2.Tracef("%s: callback %s may be invoked by %s", ex.pos(pos), fv.Fn.Name(), shortKey(key))
			nfr := &Frame{fn: fv.Fn, env: map[ssa.Value]Val{}, loopCut: map[*ssa.BasicBlock]bool{}, args: cargs, depth: fr.depth + 1, caller: fr,
				stack: append(append([]*ssa.Function(nil), fr.stack...), fv.Fn)}
			for i, p := range fv.Fn.Params {
				nfr.env[p] = cargs[i]
			}
			ex.bindFreeVars(nfr, fv.Fn, fv.Bind)
			outs := ex.runBlock(nfr, st2, fv.Fn.Blocks[0], 0)
			if c.Flags["repeats"] {
				// a callee that calls the closure again after a failed attempt (retry.Do): a second attempt starts
				// from every state in which the first one returned (obligations inside see that state)
				for _, o := range outs {
					if o.Panic || len(outs) > 16 {
						continue
					}
					nfr2 := &Frame{fn: fv.Fn, env: map[ssa.Value]Val{}, loopCut: map[*ssa.BasicBlock]bool{}, args: cargs, depth: fr.depth + 1, caller: fr,
						stack: append(append([]*ssa.Function(nil), fr.stack...), fv.Fn)}
					for i, p := range fv.Fn.Params {
						nfr2.env[p] = cargs[i]
					}
					ex.bindFreeVars(nfr2, fv.Fn, fv.Bind)
					// only a failed attempt is retried
					if len(o.Ret) == 1 {
						if iv, ok := o.Ret[0].(*IfaceV); ok {
							if iv.Nil {
								continue
							}
							if iv.Dyn == nil && iv.Sym != nil && iv.Sym.Sort == SErr {
								o.St.Assume(Not(Eq(iv.Sym, errNil)))
							}
						}
					}
					o.St.Tracef("%s: %s retries the closure (second attempt)", ex.pos(pos), shortKey(key))
					ex.secondAttempt = true
					ex.runBlock(nfr2, o.St, fv.Fn.Blocks[0], 0)
					ex.secondAttempt = false
				}
			}
			ex.markEscaped(st, []Val{fv})
			for c := range st.cells {
				if c.Escaped {
					st.cells[c] = ex.freshVal(st, c.T, c.Name)
				}
			}
		}
	}
	if c.Extern {
		ex.usedExtern[key] = true
	}
	ord := ex.nextCallOrd(fr, key, pos)
	env := &CEnv{ex: ex, st: st, vars: map[string]TV{}, fn: fr.fn, pkg: contractPkg(ex, c, fn)}
	for i, n := range names {
		if i < len(args) {
			env.vars[n] = TV{args[i], ptypes[i]}
			env.vars[fmt.Sprintf("arg%d", i)] = TV{args[i], ptypes[i]}
		}
	}
	for old, i := range c.paramAliases(names) {
		if i < len(args) {
			env.vars[old] = TV{args[i], ptypes[i]}
		}
	}
	if len(names) > 0 && fn != nil && fn.Signature.Recv() != nil {
		env.vars["this"] = TV{args[0], ptypes[0]}
	}
	st.Tracef("%s: call %s by contract", ex.pos(pos), shortKey(key))
	// preconditions
	for _, cl := range c.Clauses {
		if cl.Kind != "requires" || !tagActive(cl.Tags, ex.prop) {
			continue
		}
		g := ex.evalBool(cl.E, env)
		label := cl.Label
		if label == "" {
			label = fmt.Sprint(cl.Ord)
		}
		// a precondition is an obligation of the property that owns it; the other properties rely on that check
		if tagOwned(cl.Tags, ex.prop) {
			ex.addObl(st, "pre", ex.oblName("pre", fmt.Sprintf("#%s@%s#%d", label, shortKey(key), ord)), g, pos, cl.Text)
		}
		st.Assume(g) // once checked it may be relied upon further down this path
	}
	old := st.Clone()
	// effects
	eff := ex.contractEffects(c)
	if eff.Heap {
		ex.markEscaped(st, args)
		ex.havocHeap(st)
		ex.havocArgs(st, args)
	}
	for _, cl := range c.Clauses {
		// a frame clause is honoured under every property, whatever its tag: forgetting more is always sound, and a
		// clause of another property that relates the ghost to its old value must never meet an unchanged ghost
		if cl.Kind == "modifies" || cl.Kind == "havoc" {
			for _, n := range cl.Names {
				if g, ok := ex.lib.Ghosts[n]; ok {
					st.ghost[n] = ex.declare("g_"+n, g.Sort)
				}
			}
		}
	}
	if !claimsGhostFrame(c, ex.prop) && !c.Extern {
		for _, n := range ex.frameGhosts {
			g := ex.lib.Ghosts[n]
			if g.Stable {
				continue
			}
			if g.FsState && !ex.reachMutating[key] {
				continue // a callee that cannot reach a mutating backend operation leaves the tree alone
			}
			st.ghost[n] = ex.declare("g_"+n, g.Sort)
		}
	}
	// results
	rs := ex.freshResults(st, sig, sanitizeName(lastSeg(key)))
	// constructors (flag fresh-result): the result is a NEW object, distinct from every existing reference
	if c.Flags["fresh-result"] && len(rs) >= 1 {
		if p, ok := rs[0].(*Ptr); ok && p.Ref != nil {
			ex.ncell++
			rs[0] = &Ptr{Ref: IntConst(int64(-ex.ncell)), Root: p.Root}
		}
	}
	// a pure function whose contract defines its single scalar result ("ensures r == e") returns e itself:
	// equal calls then yield syntactically equal terms (fewer forks, smaller queries)
	if c.Flags["pure"] && len(rs) == 1 {
		rname := ""
		if sig.Results().Len() == 1 {
			rname = sig.Results().At(0).Name()
		}
		if len(c.ResNames) == 1 {
			rname = c.ResNames[0]
		}
		if _, isTerm := rs[0].(*Term); isTerm {
			for _, cl := range c.Clauses {
				if cl.Kind != "ensures" || !tagActive(cl.Tags, ex.prop) {
					continue
				}
				if b, ok := cl.E.(*EBin); ok && b.Op == "==" {
					if id, ok := b.X.(*EIdent); ok && (id.Name == rname || id.Name == "result") && rname != "" || (ok && id.Name == "result") {
						want := rs[0].(*Term).Sort
						v := ex.eval(b.Y, env, want)
						if t := ex.tvTerm(env, v, want); t != nil && t.Sort == want {
							t2 := *t
							t2.Signed = rs[0].(*Term).Signed
							rs[0] = &t2
							break
						}
					}
				}
			}
		}
	}
	env2 := &CEnv{ex: ex, st: st, old: old, vars: map[string]TV{}, fn: fr.fn, pkg: env.pkg}
	for k, v := range env.vars {
		env2.vars[k] = v
	}
	rts := resultTypes(sig)
	if os.Getenv("GOVC_DEBUG") != "" {
		fmt.Fprintf(os.Stderr, "applyContract %s sig=%s nres=%d\n", key, sig.String(), len(rs))
	}
	for i := range rs {
		n := ""
		if i < sig.Results().Len() {
			n = sig.Results().At(i).Name()
			if fn != nil && fn.Origin() != nil {
				// instance signatures are canonicalised by go/ssa and may carry the
				// names of another function of identical type: use the origin's
				n = fn.Origin().Signature.Results().At(i).Name()
			}
		}
		if i < len(c.ResNames) {
			n = c.ResNames[i]
		}
		if n != "" && n != "_" {
			env2.vars[n] = TV{rs[i], rts[i]}
		}
		env2.vars[fmt.Sprintf("result%d", i)] = TV{rs[i], rts[i]}
	}
	if len(rs) == 1 {
		env2.vars["result"] = TV{rs[0], rts[0]}
	}
	if n := len(rs); n > 0 && isErrorType(rts[n-1]) {
		env2.vars["lasterr"] = TV{rs[n-1], rts[n-1]}
	}
	for _, cl := range c.Clauses {
		if !tagActive(cl.Tags, ex.prop) {
			continue
		}
		switch cl.Kind {
		case "sets":
			ex.applySets(cl, env2, st, old)
		}
	}
	for _, cl := range c.Clauses {
		if cl.Kind == "ensures" && tagActive(cl.Tags, ex.prop) {
			skipped := false
			env2.skip = &skipped
			ex.curSkip = &skipped
			g := ex.evalBool(cl.E, env2)
			env2.skip = nil
			ex.curSkip = nil
			if skipped {
				// not evaluable here (dynamic type of an interface value unknown at this call): left out
				ex.usedExtern["clause of "+shortKey(key)+" not used at a call site where the dynamic type is unknown: "+cl.Text] = true
				continue
			}
			st.Assume(g)
			if cl.Assumed {
				ex.usedExtern["trusted clause about "+shortKey(key)+": "+cl.Text] = true
			}
		}
	}
	if c.Flags["ctx-check"] {
		st.ops = 0
	}
	if c.Flags["backend-op"] {
		st.ops++
		if st.ops > ex.maxOps {
			ex.maxOps = st.ops
		}
	}
	return []Outcome{{St: st, Ret: rs}}
}

func contractPkg(ex *Exec, c *Contract, fn *ssa.Function) *ssa.Package {
	if fn != nil {
		f := fn
		if o := f.Origin(); o != nil {
			f = o
		}
		if f.Pkg != nil {
			return f.Pkg
		}
	}
	return nil
}

func (ex *Exec) applySets(cl *Clause, env *CEnv, st, old *State) {
	g, ok := ex.lib.Ghosts[cl.LHS.Fun]
	if !ok {
		ex.errs = append(ex.errs, fmt.Sprintf("%s:%d: sets of undeclared ghost %s", cl.File, cl.Line, cl.LHS.Fun))
		return
	}
	oenv := *env
	oenv.st = old
	cur := ex.ghostVal(st, g.Name)
	if len(cl.LHS.Args) == 0 {
		v := ex.evalTerm(cl.E, env, g.Sort)
		st.ghost[g.Name] = v
		return
	}
	// g(args) := e over an array ghost
	idxSort, valSort := arraySorts(g.Sort)
	idx := ex.evalTerm(cl.LHS.Args[0], env, idxSort)
	v := ex.evalTerm(cl.E, env, valSort)
	st.ghost[g.Name] = store(cur, idx, v)
}

func arraySorts(s string) (string, string) {
	// (Array A B)
	if !strings.HasPrefix(s, "(Array ") {
		return "", ""
	}
	parts := splitSexprs(s[7 : len(s)-1])
	if len(parts) != 2 {
		return "", ""
	}
	return parts[0], parts[1]
}

func (ex *Exec) ghostVal(st *State, name string) *Term {
	if v, ok := st.ghost[name]; ok && v != nil {
		return v
	}
	g := ex.lib.Ghosts[name]
	n := "G0!" + name
	if _, ok := ex.defs[n]; !ok {
		d := &Def{Name: n, Sort: g.Sort, Ord: len(ex.defOrder)}
		ex.defs[n] = d
		ex.defOrder = append(ex.defOrder, d)
	}
	v := &Term{S: n, Sort: g.Sort}
	st.ghost[name] = v
	return v
}

func (ex *Exec) nextCallOrd(fr *Frame, key string, pos token.Pos) int {
	// ordinal of this call site among the call sites of the same callee in
	// the function under proof, by source position (stable under line moves
	// as long as the order of call sites is unchanged)
	k := ex.curKey + "|" + ex.curInst + "|" + key
	sites := ex.callSites[k]
	ps := ex.pos(pos)
	for i, s := range sites {
		if s == ps {
			return i + 1
		}
	}
	ex.callSites[k] = append(sites, ps)
	return len(sites) + 1
}

// ------------------------------------------------------------ builtins

func (ex *Exec) builtin(fr *Frame, st *State, name string, args []Val, cc *ssa.CallCommon, rt types.Type, pos token.Pos) []Outcome {
	one := func(v Val) []Outcome { return []Outcome{{St: st, Ret: []Val{v}}} }
	if name == "append" || name == "copy" || name == "delete" {
		var ns []string
		var ts []types.Type
		for i := range args {
			ns = append(ns, fmt.Sprintf("b%d", i))
			ts = append(ts, nil)
		}
		ex.checkAsserts(fr, st, "builtin."+name, ns, ts, args, pos)
	}
	switch name {
	case "len", "cap":
		if len(args) == 1 {
			switch a := args[0].(type) {
			case *SliceV:
				return one(a.Len)
			case *Term:
				if a.Sort == SString {
					return one(ex.strLen(a))
				}
			case *ArrayV:
				return one(BVInt(int64(len(a.E)), 64, true))
			case *MapV:
				return one(ex.freshTerm("maplen", bvSort(64), true))
			}
		}
		return one(ex.freshTerm("len", bvSort(64), true))
	case "append":
		if len(args) == 2 {
			s, ok1 := args[0].(*SliceV)
			t, ok2 := args[1].(*SliceV)
			if ok1 && ok2 {
				return one(ex.appendSlices(st, s, t))
			}
			if ok1 {
				if str, ok := args[1].(*Term); ok && str.Sort == SString {
					r := ex.freshVal(st, rt, "append").(*SliceV)
					st.Assume(Eq(r.Len, mk(bvSort(64), true, "(bvadd %s %s)", s.Len.S, ex.strLen(str).S)))
					return one(r)
				}
			}
		}
		return one(ex.freshVal(st, rt, "append"))
	case "copy":
		ex.havocHeap(st)
		return one(ex.freshTerm("copied", bvSort(64), true))
	case "delete", "print", "println", "close", "clear":
		if name == "delete" {
			ex.havocHeap(st)
		}
		return []Outcome{{St: st}}
	case "min", "max":
		if len(args) == 2 {
			a, ok1 := args[0].(*Term)
			b, ok2 := args[1].(*Term)
			if ok1 && ok2 && isBV(a.Sort) {
				op := "bvsle"
				if !a.Signed {
					op = "bvule"
				}
				if name == "max" {
					a, b = b, a
				}
				r := Ite(app(SBool, op, a, b), a, b)
				if name == "max" {
					r = Ite(app(SBool, op, a, b), b, a)
					r = Ite(app(SBool, op, b, a), b, a)
				}
				return one(r)
			}
		}
	case "recover":
		// panics raised inside dependencies are not modelled: on the paths executed here
		// nothing is panicking, so recover() yields nil (listed as an engine note)
		ex.warn("recover() modelled as returning nil (panics raised by dependencies are not modelled)")
		return one(&IfaceV{Nil: true})
	case "ssa:wrapnilchk":
		return one(args[0])
	case "ssa:deferstack":
		return one(IntConst(0))
	case "panic":
		return []Outcome{{St: st, Panic: true}}
	}
	if rt == nil {
		return []Outcome{{St: st}}
	}
	return one(ex.freshVal(st, rt, name))
}

func (ex *Exec) strLen(s *Term) *Term {
	if strings.HasPrefix(s.S, "\"") && !strings.Contains(s.S, "\\u{") {
		inner := strings.ReplaceAll(s.S[1:len(s.S)-1], "\"\"", "\"")
		return BVInt(int64(len(inner)), 64, true)
	}
	ex.declareUF("slen", []string{SString}, bvSort(64))
	r := app(bvSort(64), "slen", s)
	r.Signed = true
	return r
}

func (ex *Exec) appendSlices(st *State, s, t *SliceV) Val {
	// result: contents of s followed by contents of t
	if t.ArrPtr != nil {
		if n, ok := constBV(t.Len); ok {
			// append(s, e0, e1, ...): fresh backing store with s's contents and the new elements
			key, as := sliceKey(s.Elem)
			es := elemSort(s.Elem)
			var src *Term
			if s.ArrPtr != nil {
				s = ex.sliceToHeap(st, s)
			}
			src = ex.sliceArr(st, s)
			cur := src
			for i := int64(0); i < n; i++ {
				e := ex.sliceGet(st, t, BVInt(i, 64, true))
				tv := ex.coerce(st, e, es)
				cur = store(cur, ex.define("ai", mk(bvSort(64), true, "(bvadd %s %s)", s.Len.S, BVInt(i, 64, true).S)), tv)
			}
			ex.ncell++
			r := &SliceV{Elem: s.Elem, Len: ex.define("len", mk(bvSort(64), true, "(bvadd %s %s)", s.Len.S, t.Len.S)), Back: IntConst(int64(-ex.ncell))}
			st.heap[key] = store(ex.heapArrE(st, key, as), r.Back, cur)
			return r
		}
	}
	// general case: length known, contents related by quantified facts
	key, as := sliceKey(s.Elem)
	if s.ArrPtr != nil {
		s = ex.sliceToHeap(st, s)
	}
	if t.ArrPtr != nil {
		t = ex.sliceToHeap(st, t)
	}
	a, b := ex.sliceArr(st, s), ex.sliceArr(st, t)
	ex.ncell++
	r := &SliceV{Elem: s.Elem, Len: ex.define("len", mk(bvSort(64), true, "(bvadd %s %s)", s.Len.S, t.Len.S)), Back: IntConst(int64(-ex.ncell))}
	na := ex.declare("appended", as)
	st.Assume(&Term{S: fmt.Sprintf("(forall ((i!q (_ BitVec 64))) (! (= (select %s i!q) (ite (bvslt i!q %s) (select %s i!q) (select %s (bvsub i!q %s)))) :pattern ((select %s i!q))))",
		na.S, s.Len.S, a.S, b.S, s.Len.S, na.S), Sort: SBool})
	st.heap[key] = store(ex.heapArrE(st, key, as), r.Back, na)
	return r
}

func samePackage(a, b *ssa.Function) bool {
	pa, pb := a, b
	for pa.Parent() != nil {
		pa = pa.Parent()
	}
	for pb.Parent() != nil {
		pb = pb.Parent()
	}
	if o := pa.Origin(); o != nil {
		pa = o
	}
	if o := pb.Origin(); o != nil {
		pb = o
	}
	return pa.Pkg != nil && pa.Pkg == pb.Pkg
}

func (ex *Exec) vfsMethodFor(cc *ssa.CallCommon) *ssa.Function {
	return ex.dispatchMethod(cc.Value.Type(), cc.Method.Name())
}

// dispatchMethod resolves a method of a /repo interface to the method of the concrete
// type declared for it by a "dispatch" line of the specs.
func (ex *Exec) dispatchMethod(t types.Type, method string) *ssa.Function {
	n, ok := t.(*types.Named)
	if !ok || n.Obj().Pkg() == nil {
		return nil
	}
	target, ok := ex.lib.Dispatch[n.Obj().Pkg().Path()+"."+n.Obj().Name()]
	if !ok {
		return nil
	}
	ptr := strings.HasPrefix(target, "*")
	target = strings.TrimPrefix(target, "*")
	i := strings.LastIndex(target, ".")
	p := ex.prog.ImportedPackage(target[:i])
	if p == nil {
		return nil
	}
	tm, ok := p.Members[target[i+1:]].(*ssa.Type)
	if !ok {
		return nil
	}
	var recv types.Type = tm.Type()
	if ptr {
		recv = types.NewPointer(recv)
	}
	ms := ex.prog.MethodSets.MethodSet(recv)
	for k := 0; k < ms.Len(); k++ {
		if ms.At(k).Obj().Name() == method {
			return ex.prog.MethodValue(ms.At(k))
		}
	}
	return nil
}

var pkgQualRe = regexp.MustCompile(`[A-Za-z0-9_.\-]+(/[A-Za-z0-9_.\-]+)*\.`)

// bareKey strips every package qualifier: "(*github.com/x/fs.VFS).unzip" -> "(*VFS).unzip".
func bareKey(k string) string {
	return pkgQualRe.ReplaceAllStringFunc(k, func(m string) string {
		// keep the method separator: only qualifiers followed by an identifier start are dropped
		return ""
	})
}

// paramNameOfValue: v is (a load of the cell of) a parameter of fn - its name, else "".
func paramNameOfValue(fn *ssa.Function, v ssa.Value) string {
	switch x := v.(type) {
	case *ssa.Parameter:
		return x.Name()
	case *ssa.UnOp:
		if x.Op == token.MUL {
			if a, ok := x.X.(*ssa.Alloc); ok {
				for _, p := range fn.Params {
					if p.Name() == a.Comment {
						return p.Name()
					}
				}
			}
		}
	}
	return ""
}

// emptyContractOfSmallHelper: the function has a contract only because a blanket schema ("every function of the package
// is used through its contract") gave it one, that contract says nothing under the property in force, and the function
// is a small, loop-free, non-recursive helper of the package under proof: it is then executed in its caller's context
// like a helper without contract. (Extracting a few statements into a new helper must not turn them into an unknown.)
func (ex *Exec) emptyContractOfSmallHelper(c *Contract, fn *ssa.Function) bool {
	if !c.Synth || len(c.Flags) > 0 || fn == nil || len(fn.Blocks) == 0 || ex.topFrame == nil || !samePackage(fn, ex.topFrame.fn) {
		if os.Getenv("GOVC_DEBUG") != "" && fn != nil && c.Synth {
			fmt.Fprintf(os.Stderr, "not a small helper: %s flags=%v\n", c.Key, c.Flags)
		}
		return false
	}
	for _, cl := range c.Clauses {
		if tagActive(cl.Tags, ex.prop) && cl.Kind != "exempt" && cl.Kind != "params" && cl.Kind != "local" {
			if os.Getenv("GOVC_DEBUG") != "" {
				fmt.Fprintf(os.Stderr, "not a small helper: %s has active clause %s %s\n", c.Key, cl.Kind, cl.Text)
			}
			return false
		}
	}
	if v, ok := ex.smallHelper[fn]; ok {
		return v
	}
	n := 0
	small := true
	for _, b := range fn.Blocks {
		n += len(b.Instrs)
		for _, ins := range b.Instrs {
			if ci, ok := ins.(ssa.CallInstruction); ok {
				if sc := ci.Common().StaticCallee(); sc == fn {
					small = false // recursive
				}
			}
		}
	}
	if hasBackEdge(fn) {
		small = false // a loop
	}
	// Beyond a few statements only helpers whose blocks are numbered forwards are executed in place (the right-hand side
	// of || and && is numbered after the blocks it jumps to: a cheap, conservative stand-in for "straight-line shape"
	// that keeps the number of paths of the large filesystem functions what their proofs were built with).
	if n > 80 {
		for _, b := range fn.Blocks {
			for _, succ := range b.Succs {
				if succ.Index <= b.Index {
					small = false
				}
			}
		}
	}
	if n > 120 {
		small = false
	}
	if ex.smallHelper == nil {
		ex.smallHelper = map[*ssa.Function]bool{}
	}
	ex.smallHelper[fn] = small
	return small
}

// hasBackEdge: the control-flow graph of fn has a cycle (an edge to a block that is on the depth-first stack). Block
// numbers say nothing: the right-hand side of || and && is numbered after the blocks it jumps to.
func hasBackEdge(fn *ssa.Function) bool {
	state := make([]int, len(fn.Blocks)) // 0 unseen, 1 on the stack, 2 done
	var visit func(b *ssa.BasicBlock) bool
	visit = func(b *ssa.BasicBlock) bool {
		state[b.Index] = 1
		for _, s := range b.Succs {
			if state[s.Index] == 1 {
				return true
			}
			if state[s.Index] == 0 && visit(s) {
				return true
			}
		}
		state[b.Index] = 2
		return false
	}
	return len(fn.Blocks) > 0 && visit(fn.Blocks[0])
}

func isBoundMethodWrapper(fn *ssa.Function) bool {
	return fn != nil && strings.HasPrefix(fn.Synthetic, "bound method wrapper")
}

// boundTarget: the method a bound method wrapper calls, when it is statically known (concrete receiver).
func (ex *Exec) boundTarget(obj *types.Func, recv Val) *ssa.Function {
	if iv, ok := recv.(*IfaceV); ok {
		if iv.Dyn != nil {
			return ex.prog.LookupMethod(iv.Dyn, obj.Pkg(), obj.Name())
		}
		return nil
	}
	return ex.prog.FuncValue(obj)
}
