package main

import (
	"fmt"
	"strings"
)

func init() { replayDrivers["retryafter"] = replayRetryAfter }

// replayRetryAfter builds a 429 response whose Retry-After header is the
// number the model chose for strconv.ParseInt's result (or a date one
// nanosecond-scale ahead for the clock window) and checks wait >= 0.
func replayRetryAfter(ex *Exec, o *Obligation) (string, string, string, bool, error) {
	header := ""
	for k, v := range o.Model {
		if strings.HasPrefix(k, "sym:ParseInt_r0") {
			lit, err := goLiteral(v, "int64")
			if err == nil {
				header = lit
			}
		}
	}
	usedInt := false
	for _, t := range o.Trace {
		if strings.Contains(t, "call time.Until") {
			header = ""
		}
	}
	if header != "" {
		usedInt = true
	}
	var body string
	if usedInt {
		body = fmt.Sprintf(`
	resp := &nethttp.Response{StatusCode: 429, Header: nethttp.Header{}}
	resp.Header.Set("Retry-After", %q)
	wait, found := findRetryAfter(resp)
	if found && wait < 0 {
		t.Fatalf("REPRODUCED: Retry-After %%s on a 429 gives a negative wait %%v", %q, wait)
	}
	t.Logf("NOT-REPRODUCED: wait=%%v found=%%v", wait, found)
`, header, header)
	} else {
		body = `
	// date form: the clock is read twice (After(time.Now()) then time.Until); a date
	// a few hundred nanoseconds ahead can yield a negative wait. Timing dependent: tried in a loop.
	for i := 0; i < 200000; i++ {
		resp := &nethttp.Response{StatusCode: 503, Header: nethttp.Header{}}
		resp.Header.Set("Retry-After", time.Now().Add(time.Duration(i%2000)*time.Nanosecond).Format(time.RFC3339Nano))
		wait, found := findRetryAfter(resp)
		if found && wait < 0 {
			t.Fatalf("REPRODUCED: date Retry-After gives a negative wait %v", wait)
		}
	}
	t.Logf("NOT-REPRODUCED after 200000 attempts")
`
	}
	src := `package http

import (
	nethttp "net/http"
	"testing"
	"time"
)

var _ = time.Second

func TestVerifReplay(t *testing.T) {` + body + `}
`
	return "http", src, "^TestVerifReplay$", false, nil
}
