package main

import (
	"sort"
	"fmt"
	"go/constant"
	"go/types"
	"math/big"
	"strconv"
	"strings"

	"golang.org/x/tools/go/ssa"
)

// CEnv is the environment in which a contract expression is evaluated.
type CEnv struct {
	ex    *Exec
	st    *State // current state
	old   *State // state for old(...)
	vars  map[string]TV
	fn    *ssa.Function
	pkg   *ssa.Package
	bound map[string]*Term
	inOld bool
	// skip (when non-nil: the clause is being ASSUMED at a call site): set when the clause cannot be evaluated there for
	// want of the dynamic type of an interface value - the caller then leaves the clause out (weaker assumption, sound)
	skip *bool
}

func (e *CEnv) state() *State {
	if e.inOld && e.old != nil {
		return e.old
	}
	return e.st
}

func (ex *Exec) cerr(f string, a ...interface{}) {
	if ex.curSkip != nil && *ex.curSkip {
		return // the clause being assumed has already been found unusable at this call site and is left out
	}
	msg := "CONTRACT-STALE: " + fmt.Sprintf(f, a...) + " [while verifying " + shortKey(ex.curKey) + "]"
	for _, e := range ex.errs {
		if e == msg {
			return
		}
	}
	ex.errs = append(ex.errs, msg)
}

func (ex *Exec) evalBool(e Expr, env *CEnv) *Term {
	v := ex.eval(e, env, SBool)
	t, ok := v.V.(*Term)
	if !ok || t.Sort != SBool {
		ex.cerr("expression %s is not boolean", e.String())
		return ex.freshTerm("bad", SBool, false)
	}
	return t
}

func (ex *Exec) evalTerm(e Expr, env *CEnv, want string) *Term {
	v := ex.eval(e, env, want)
	t := ex.tvTerm(env, v, want)
	if t == nil {
		ex.cerr("expression %s has no term form", e.String())
		return ex.freshTerm("bad", want, false)
	}
	return t
}

// tvTerm coerces an evaluated value to a term of the wanted sort if possible.
func (ex *Exec) tvTerm(env *CEnv, v TV, want string) *Term {
	switch x := v.V.(type) {
	case *Term:
		if want != "" && x.Sort != want {
			if isBV(x.Sort) && isBV(want) {
				return Extend(x, bvBits(want), x.Signed)
			}
			if isBV(x.Sort) && want == SInt {
				if x.Signed {
					return &Term{S: fmt.Sprintf("(ite (bvslt %s (_ bv0 %d)) (- (bv2nat %s) %s) (bv2nat %s))", x.S, bvBits(x.Sort), x.S, new(big.Int).Lsh(big.NewInt(1), uint(bvBits(x.Sort))).String(), x.S), Sort: SInt}
				}
				return &Term{S: "(bv2nat " + x.S + ")", Sort: SInt}
			}
		}
		return x
	case *IfaceV:
		sort := want
		if sort != SErr && sort != SRef {
			if x.Sym != nil {
				sort = x.Sym.Sort
			} else if v.T != nil {
				sort, _ = sortOfType(v.T)
			} else {
				sort = SRef
			}
		}
		return ex.ifaceTerm(env.state(), x, sort)
	case nil:
		return nil
	}
	return ex.asTerm(env.state(), v.V)
}

var specConsts = map[string]string{
	"MaxInt64": "9223372036854775807", "MinInt64": "-9223372036854775808", "MaxUint64": "18446744073709551615",
	"MaxInt32": "2147483647", "MinInt32": "-2147483648", "MaxUint32": "4294967295",
	"MaxInt16": "32767", "MinInt16": "-32768", "MaxUint16": "65535",
	"MaxInt8": "127", "MinInt8": "-128", "MaxUint8": "255",
	"MaxInt": "9223372036854775807", "MinInt": "-9223372036854775808", "MaxUint": "18446744073709551615",
}

func litTerm(text string, want string) *Term {
	bi, ok := new(big.Int).SetString(text, 0)
	if !ok {
		return nil
	}
	switch {
	case isBV(want):
		return BVConst(bi, bvBits(want), true)
	case want == SInt:
		if bi.Sign() < 0 {
			return &Term{S: "(- " + new(big.Int).Neg(bi).String() + ")", Sort: SInt}
		}
		return &Term{S: bi.String(), Sort: SInt}
	case isFP(want):
		return fpLit(want, new(big.Int).Abs(bi).String()+".0", bi.Sign() < 0)
	}
	return BVConst(bi, 64, true)
}

func (ex *Exec) eval(e Expr, env *CEnv, want string) TV {
	switch x := e.(type) {
	case *ELit:
		switch x.Kind {
		case "bool":
			if x.Text == "true" {
				return TV{V: TTrue}
			}
			return TV{V: TFalse}
		case "string":
			return TV{V: StrConst(x.Text)}
		case "int":
			if want == "" || want == SBool || want == SString {
				want = bvSort(64)
			}
			t := litTerm(x.Text, want)
			if t == nil {
				ex.cerr("bad literal %s", x.Text)
				return TV{V: BVInt(0, 64, true)}
			}
			return TV{V: t}
		case "float":
			f, _ := strconv.ParseFloat(x.Text, 64)
			s := SF64
			if isFP(want) {
				s = want
			}
			return TV{V: &Term{S: fmt.Sprintf("((_ to_fp %s) RNE %s)", strings.TrimSuffix(strings.TrimPrefix(s, "(_ FloatingPoint "), ")"), big.NewFloat(f).Text('f', 40)), Sort: s}}
		case "nil":
			switch want {
			case SErr:
				return TV{V: errNil}
			}
			return TV{V: &IfaceV{Nil: true}}
		}
	case *EIdent:
		return ex.evalIdent(x.Name, env, want)
	case *EUn:
		switch x.Op {
		case "!":
			return TV{V: Not(ex.evalBool(x.X, env))}
		case "-":
			if l, ok := x.X.(*ELit); ok && l.Kind == "int" {
				return ex.eval(&ELit{"int", "-" + l.Text}, env, want)
			}
			v := ex.eval(x.X, env, want)
			if t, ok := v.V.(*Term); ok {
				if isBV(t.Sort) {
					r := app(t.Sort, "bvneg", t)
					r.Signed = t.Signed
					return TV{V: r, T: v.T}
				}
				if isFP(t.Sort) {
					return TV{V: app(t.Sort, "fp.neg", t), T: v.T}
				}
				if t.Sort == SInt {
					return TV{V: app(SInt, "-", t)}
				}
			}
		}
	case *EBin:
		return ex.evalBin(x, env, want)
	case *ECond:
		c := ex.evalBool(x.C, env)
		a := ex.eval(x.A, env, want)
		w2 := want
		if t, ok := a.V.(*Term); ok {
			w2 = t.Sort
		}
		b := ex.eval(x.B, env, w2)
		at, bt := ex.tvTerm(env, a, w2), ex.tvTerm(env, b, w2)
		if at == nil || bt == nil || at.Sort != bt.Sort {
			ex.cerr("branches of conditional %s differ in sort", e.String())
			return TV{V: ex.freshTerm("bad", want, false)}
		}
		return TV{V: Ite(c, at, bt), T: a.T}
	case *ESel:
		// package-qualified name?
		if id, ok := x.X.(*EIdent); ok {
			if _, isVar := env.vars[id.Name]; !isVar {
				if _, isBound := env.bound[id.Name]; !isBound {
					if p := ex.findPackage(id.Name, env); p != nil {
						return ex.evalPkgMember(p, x.Sel, env, want)
					}
				}
			}
		}
		base := ex.eval(x.X, env, "")
		return ex.evalField(base, x.Sel, env, e)
	case *EIndex:
		base := ex.eval(x.X, env, "")
		switch b := base.V.(type) {
		case *SliceV:
			idx := ex.evalTerm(x.I, env, bvSort(64))
			return TV{V: ex.sliceGet(env.state(), b, idx), T: b.Elem}
		case *Term:
			if strings.HasPrefix(b.Sort, "(Array ") {
				is, vs := arraySorts(b.Sort)
				idx := ex.evalTerm(x.I, env, is)
				return TV{V: ex.sel(b, idx, vs)}
			}
		case *ArrayV:
			idx := ex.evalTerm(x.I, env, bvSort(64))
			if k, ok := constBV(idx); ok && int(k) < len(b.E) {
				return TV{V: b.E[k]}
			}
		}
		ex.cerr("cannot index %s", e.String())
	case *ECall:
		return ex.evalCall(x, env, want)
	case *EQuant:
		nb := map[string]*Term{}
		for k, v := range env.bound {
			nb[k] = v
		}
		var decl []string
		for _, v := range x.Vars {
			s := resolveSort(v[1])
			name := v[0] + "!b"
			bt := &Term{S: name, Sort: s, Signed: true}
			if strings.HasPrefix(v[1], "u") {
				bt.Signed = false
			}
			nb[v[0]] = bt
			decl = append(decl, "("+name+" "+s+")")
		}
		env2 := *env
		env2.bound = nb
		body := ex.evalBool(x.Body, &env2)
		q := "exists"
		if x.Forall {
			q = "forall"
		}
		return TV{V: &Term{S: fmt.Sprintf("(%s (%s) %s)", q, strings.Join(decl, " "), body.S), Sort: SBool}}
	}
	ex.cerr("cannot evaluate %s", e.String())
	if want == "" {
		want = SBool
	}
	return TV{V: ex.freshTerm("bad", want, false)}
}

func (ex *Exec) findPackage(name string, env *CEnv) *ssa.Package {
	// imports of the contract's package first
	if env.pkg != nil {
		for _, imp := range env.pkg.Pkg.Imports() {
			if imp.Name() == name {
				return ex.prog.Package(imp)
			}
		}
	}
	if env.fn != nil {
		f := env.fn
		for f.Parent() != nil {
			f = f.Parent()
		}
		if o := f.Origin(); o != nil {
			f = o
		}
		if f.Pkg != nil {
			for _, imp := range f.Pkg.Pkg.Imports() {
				if imp.Name() == name {
					return ex.prog.Package(imp)
				}
			}
		}
	}
	if p, ok := ex.pkgByName[name]; ok {
		return p
	}
	return nil
}

func (ex *Exec) evalPkgMember(p *ssa.Package, name string, env *CEnv, want string) TV {
	m := p.Members[name]
	switch x := m.(type) {
	case *ssa.NamedConst:
		if implementsError(x.Type()) && x.Value.Value != nil {
			return TV{V: &IfaceV{Dyn: x.Type(), Sym: errConstSym(x.Type(), x.Value.Value.ExactString())}, T: x.Type()}
		}
		return TV{V: ex.constToTerm(x.Value.Value, x.Type(), want), T: x.Type()}
	case *ssa.Global:
		return TV{V: ex.loadGlobal(env.state(), x, nil), T: derefType(x.Type())}
	}
	ex.cerr("unknown package member %s.%s", p.Pkg.Name(), name)
	return TV{V: ex.freshTerm("bad", SBool, false)}
}

func (ex *Exec) constToTerm(v constant.Value, t types.Type, want string) Val {
	switch v.Kind() {
	case constant.Bool:
		if constant.BoolVal(v) {
			return TTrue
		}
		return TFalse
	case constant.String:
		return StrConst(constant.StringVal(v))
	case constant.Int:
		if want == "" || !(isBV(want) || want == SInt || isFP(want)) {
			if s, _ := sortOfType(t); s != "" && isBV(s) {
				want = s
			} else {
				want = bvSort(64)
			}
		}
		return litTerm(v.ExactString(), want)
	case constant.Float:
		f, _ := constant.Float64Val(v)
		return FPConstFromBits(mathFloat64bits(f), SF64)
	}
	return IntConst(0)
}

func (ex *Exec) evalIdent(name string, env *CEnv, want string) TV {
	if b, ok := env.bound[name]; ok {
		return TV{V: b}
	}
	if env.inOld {
		// inside old(): a parameter is its entry value (its cell has not been written yet in the entry state)
		if v, ok := env.vars[name+"0"]; ok {
			if _, lz := v.V.(*lazyCell); !lz {
				return v
			}
		}
	}
	if v, ok := env.vars[name]; ok {
		// locals bound lazily to cells are loaded from the state in use
		if lz, ok := v.V.(*lazyCell); ok {
			if ex.usedLocals != nil {
				ex.usedLocals[shortKey(ex.curKey)+": "+name] = true
			}
			return TV{V: ex.load(env.state(), lz.p, v.T), T: v.T}
		}
		return v
	}
	if _, ok := ex.lib.Ghosts[name]; ok {
		return TV{V: ex.ghostVal(env.state(), name)}
	}
	if c, ok := specConsts[name]; ok {
		if want == "" || want == SBool {
			want = SZ
		}
		return TV{V: litTerm(c, want)}
	}
	if sf, ok := ex.lib.Funs[name]; ok && len(sf.ArgSorts) == 0 {
		return TV{V: &Term{S: name, Sort: sf.Ret}}
	}
	// package-level object of the contract's package
	pkgs := []*ssa.Package{env.pkg}
	if env.fn != nil {
		f := env.fn
		for f.Parent() != nil {
			f = f.Parent()
		}
		if o := f.Origin(); o != nil {
			f = o
		}
		pkgs = append(pkgs, f.Pkg)
	}
	for _, p := range pkgs {
		if p == nil {
			continue
		}
		if _, ok := p.Members[name]; ok {
			return ex.evalPkgMember(p, name, env, want)
		}
	}
	if env.skip != nil {
		// a clause assumed at a call site that names a local of the callee: not usable there
		*env.skip = true
		return TV{V: ex.freshTerm("skipped", SBool, false)}
	}
	ex.cerr("unresolved identifier %q", name)
	if want == "" {
		want = SBool
	}
	return TV{V: ex.freshTerm("bad", want, false)}
}

// lazyCell lets invariants name locals: the value is read from whichever state
// the expression is evaluated in.
type lazyCell struct{ p *Ptr }

func (ex *Exec) evalField(base TV, sel string, env *CEnv, e Expr) TV {
	st := env.state()
	v := base.V
	t := base.T
	// auto-dereference
	for i := 0; i < 3; i++ {
		switch x := v.(type) {
		case *Ptr:
			var pt types.Type
			switch {
			case x.Cell != nil:
				pt = typeAtPath(x.Cell.T, x.Path)
			case x.Ref != nil:
				pt = typeAtPath(x.Root, x.Path)
			case x.Global != nil:
				pt = typeAtPath(derefType(x.Global.Type()), x.Path)
			}
			if pt == nil {
				ex.cerr("cannot dereference in %s", e.String())
				return TV{V: ex.freshTerm("bad", SBool, false)}
			}
			// find field (possibly promoted through embedded structs)
			if path, ft := findField(pt, sel); path != nil {
				np := *x
				np.Path = append(append([]int(nil), x.Path...), path...)
				return TV{V: ex.load(st, &np, ft), T: ft}
			}
			ex.cerr("no field %s in %s (%s)", sel, pt, e.String())
			return TV{V: ex.freshTerm("bad", SBool, false)}
		case *StructV:
			if path, ft := findField(x.T, sel); path != nil {
				return TV{V: getPath(x, path), T: ft}
			}
			ex.cerr("no field %s in %s", sel, x.T)
			return TV{V: ex.freshTerm("bad", SBool, false)}
		case *IfaceV:
			if x.Dyn != nil {
				v = x.V
				t = x.Dyn
				continue
			}
			// an interface value standing for a pointer receiver (dispatch): its identity is the object
			if pt, ok := t.(*types.Pointer); ok && x.Sym != nil && x.Sym.Sort == SRef {
				v = &Ptr{Ref: x.Sym, Root: pt.Elem()}
				continue
			}
			// a /repo interface with a declared concrete implementation (dispatch)
			if n, ok := t.(*types.Named); ok && x.Sym != nil && x.Sym.Sort == SRef && n.Obj().Pkg() != nil {
				if target, ok := ex.lib.Dispatch[n.Obj().Pkg().Path()+"."+n.Obj().Name()]; ok {
					target = strings.TrimPrefix(target, "*")
					i := strings.LastIndex(target, ".")
					if p := ex.prog.ImportedPackage(target[:i]); p != nil {
						if tm, ok := p.Members[target[i+1:]].(*ssa.Type); ok {
							v = &Ptr{Ref: x.Sym, Root: tm.Type()}
							t = types.NewPointer(tm.Type())
							continue
						}
					}
				}
			}
			// an interface of /repo with exactly ONE implementation (in its own package) that has such a field: the
			// clause speaks about that implementation (for a value of another dynamic type it constrains nothing that
			// is ever read: the heap is indexed by type and field)
			if n, ok := t.(*types.Named); ok && x.Sym != nil && x.Sym.Sort == SRef && n.Obj().Pkg() != nil {
				if impl := ex.uniqueImplWithField(n, sel); impl != nil {
					v = &Ptr{Ref: x.Sym, Root: impl}
					t = types.NewPointer(impl)
					continue
				}
			}
			if env.skip != nil {
				*env.skip = true
				return TV{V: ex.freshTerm("skipped", SBool, false)}
			}
		}
		break
	}
	_ = t
	ex.cerr("cannot select %s in %s", sel, e.String())
	return TV{V: ex.freshTerm("bad", SBool, false)}
}

func (ex *Exec) uniqueImplWithField(n *types.Named, sel string) types.Type {
	iface, ok := n.Underlying().(*types.Interface)
	if !ok {
		return nil
	}
	p := ex.prog.ImportedPackage(n.Obj().Pkg().Path())
	if p == nil {
		return nil
	}
	var found types.Type
	for _, name := range sortedMemberNames(p) {
		tm, ok := p.Members[name].(*ssa.Type)
		if !ok || structOf(tm.Type()) == nil {
			continue
		}
		if !types.Implements(types.NewPointer(tm.Type()), iface) && !types.Implements(tm.Type(), iface) {
			continue
		}
		if path, _ := findField(tm.Type(), sel); path == nil {
			continue
		}
		if found != nil {
			return nil
		}
		found = tm.Type()
	}
	return found
}

func sortedMemberNames(p *ssa.Package) []string {
	var names []string
	for n := range p.Members {
		names = append(names, n)
	}
	sort.Strings(names)
	return names
}

func findField(t types.Type, name string) ([]int, types.Type) {
	s := structOf(t)
	if s == nil {
		return nil, nil
	}
	for i := 0; i < s.NumFields(); i++ {
		if s.Field(i).Name() == name {
			return []int{i}, s.Field(i).Type()
		}
	}
	for i := 0; i < s.NumFields(); i++ {
		if s.Field(i).Embedded() {
			if p, ft := findField(derefEmb(s.Field(i).Type()), name); p != nil {
				if _, isPtr := s.Field(i).Type().Underlying().(*types.Pointer); isPtr {
					return nil, nil // promoted through embedded pointer: not supported in specs
				}
				return append([]int{i}, p...), ft
			}
		}
	}
	return nil, nil
}

func derefEmb(t types.Type) types.Type { return derefType(t) }

func (ex *Exec) evalBin(x *EBin, env *CEnv, want string) TV {
	switch x.Op {
	case "==>":
		return TV{V: Implies(ex.evalBool(x.X, env), ex.evalBool(x.Y, env))}
	case "<==>":
		return TV{V: Eq(ex.evalBool(x.X, env), ex.evalBool(x.Y, env))}
	case "&&":
		return TV{V: And(ex.evalBool(x.X, env), ex.evalBool(x.Y, env))}
	case "||":
		return TV{V: Or(ex.evalBool(x.X, env), ex.evalBool(x.Y, env))}
	}
	// evaluate the non-literal side first so that literals take its sort
	var a, b TV
	opWant := ""
	if x.Op == "+" || x.Op == "-" || x.Op == "*" || x.Op == "/" || x.Op == "%" || x.Op == "&" || x.Op == "|" || x.Op == "^" || x.Op == "<<" || x.Op == ">>" {
		opWant = want
	}
	if isLiteral(x.X) && !isLiteral(x.Y) {
		b = ex.eval(x.Y, env, opWant)
		a = ex.eval(x.X, env, sortOfTV(b, opWant))
	} else {
		a = ex.eval(x.X, env, opWant)
		b = ex.eval(x.Y, env, sortOfTV(a, opWant))
	}
	switch x.Op {
	case "==", "!=":
		eq := ex.tvEq(env, a, b)
		if eq == nil {
			ex.cerr("cannot compare in %s", x.String())
			eq = ex.freshTerm("bad", SBool, false)
		}
		if x.Op == "!=" {
			return TV{V: Not(eq)}
		}
		return TV{V: eq}
	}
	at, bt := ex.tvTerm(env, a, ""), ex.tvTerm(env, b, "")
	if at == nil || bt == nil {
		ex.cerr("operands of %s are not scalar", x.String())
		return TV{V: ex.freshTerm("bad", SBool, false)}
	}
	if at.Sort != bt.Sort {
		// widen bit-vectors to the wider operand (spec-level convenience)
		if isBV(at.Sort) && isBV(bt.Sort) {
			w := bvBits(at.Sort)
			if bvBits(bt.Sort) > w {
				w = bvBits(bt.Sort)
			}
			at, bt = Extend(at, w, at.Signed), Extend(bt, w, bt.Signed)
		} else {
			ex.cerr("sort mismatch in %s: %s vs %s", x.String(), at.Sort, bt.Sort)
			return TV{V: ex.freshTerm("bad", SBool, false)}
		}
	}
	signed := at.Signed || bt.Signed
	if isLiteral(x.X) {
		signed = bt.Signed
	} else if isLiteral(x.Y) {
		signed = at.Signed
	}
	if at.Sort == SZ {
		signed = true
	}
	s := at.Sort
	arith := func(bv, fp, in string) TV {
		switch {
		case isBV(s):
			r := app(s, bv, at, bt)
			r.Signed = signed
			return TV{V: r, T: a.T}
		case isFP(s):
			return TV{V: &Term{S: fmt.Sprintf("(%s RNE %s %s)", fp, at.S, bt.S), Sort: s}, T: a.T}
		case s == SInt:
			return TV{V: app(SInt, in, at, bt)}
		case s == SString && in == "+":
			return TV{V: app(SString, "str.++", at, bt)}
		}
		ex.cerr("bad operands for %s", x.String())
		return TV{V: ex.freshTerm("bad", s, false)}
	}
	cmp := func(sbv, ubv, fp, in string) TV {
		switch {
		case isBV(s):
			if signed {
				return TV{V: app(SBool, sbv, at, bt)}
			}
			return TV{V: app(SBool, ubv, at, bt)}
		case isFP(s):
			return TV{V: app(SBool, fp, at, bt)}
		case s == SInt:
			return TV{V: app(SBool, in, at, bt)}
		}
		ex.cerr("bad operands for %s", x.String())
		return TV{V: ex.freshTerm("bad", SBool, false)}
	}
	switch x.Op {
	case "+":
		return arith("bvadd", "fp.add", "+")
	case "-":
		return arith("bvsub", "fp.sub", "-")
	case "*":
		return arith("bvmul", "fp.mul", "*")
	case "/":
		if isBV(s) && !signed {
			return arith("bvudiv", "fp.div", "div")
		}
		return arith("bvsdiv", "fp.div", "div")
	case "%":
		if isBV(s) && !signed {
			return arith("bvurem", "", "mod")
		}
		return arith("bvsrem", "", "mod")
	case "&":
		return arith("bvand", "", "")
	case "|":
		return arith("bvor", "", "")
	case "^":
		return arith("bvxor", "", "")
	case "<<":
		return arith("bvshl", "", "")
	case ">>":
		if signed {
			return arith("bvashr", "", "")
		}
		return arith("bvlshr", "", "")
	case "<":
		return cmp("bvslt", "bvult", "fp.lt", "<")
	case "<=":
		return cmp("bvsle", "bvule", "fp.leq", "<=")
	case ">":
		return cmp("bvsgt", "bvugt", "fp.gt", ">")
	case ">=":
		return cmp("bvsge", "bvuge", "fp.geq", ">=")
	}
	ex.cerr("unknown operator %s", x.Op)
	return TV{V: ex.freshTerm("bad", SBool, false)}
}

func isLiteral(e Expr) bool {
	switch x := e.(type) {
	case *ELit:
		return x.Kind == "int" || x.Kind == "nil" || x.Kind == "float"
	case *EUn:
		return x.Op == "-" && isLiteral(x.X)
	case *EIdent:
		_, ok := specConsts[x.Name]
		return ok
	}
	return false
}

func sortOfTV(v TV, dflt string) string {
	switch x := v.V.(type) {
	case *Term:
		return x.Sort
	case *IfaceV:
		if x.Sym != nil {
			return x.Sym.Sort
		}
		if v.T != nil {
			if s, _ := sortOfType(v.T); s != "" {
				return s
			}
		}
	case *Ptr:
		return SRef
	}
	return dflt
}

func (ex *Exec) tvEq(env *CEnv, a, b TV) *Term {
	st := env.state()
	// nil literal against anything
	if ia, ok := a.V.(*IfaceV); ok && ia.Nil {
		a, b = b, a
	}
	if ib, ok := b.V.(*IfaceV); ok && ib.Nil {
		switch x := a.V.(type) {
		case *Ptr:
			if x.Cell != nil || x.Global != nil {
				return TFalse
			}
			return Eq(ex.asTerm(st, x), IntConst(0))
		case *IfaceV:
			return ex.valEq(st, x, ib, nil)
		case *SliceV:
			return Eq(x.Back, IntConst(0))
		case *MapV:
			return Eq(x.Sym, IntConst(0))
		case *FuncV:
			if x.Fn != nil {
				return TFalse
			}
			return Eq(x.Sym, IntConst(0))
		case *Term:
			if x.Sort == SErr {
				return Eq(x, errNil)
			}
			if x.Sort == SRef {
				return Eq(x, IntConst(0))
			}
		}
		return nil
	}
	at, aok := a.V.(*Term)
	bt, bok := b.V.(*Term)
	if aok && bok {
		if at.Sort != bt.Sort && isBV(at.Sort) && isBV(bt.Sort) {
			w := bvBits(at.Sort)
			if bvBits(bt.Sort) > w {
				w = bvBits(bt.Sort)
			}
			at, bt = Extend(at, w, at.Signed), Extend(bt, w, bt.Signed)
		}
		if at.Sort == bt.Sort {
			return Eq(at, bt)
		}
		return nil
	}
	if aok || bok {
		// term against interface/pointer
		x, y := ex.tvTerm(env, a, sortOfTV(b, "")), ex.tvTerm(env, b, sortOfTV(a, ""))
		if x != nil && y != nil && x.Sort == y.Sort {
			return Eq(x, y)
		}
		return nil
	}
	return ex.valEq(st, a.V, b.V, a.T)
}

func mathFloat64bits(f float64) uint64 {
	return uint64FromFloat(f)
}
