package main

// Bounded validation of the path-algebra assumptions (specs/path.spec) against the REAL path/filepath.
//
// The prover treats filepath.Clean/Dir/Base/Join as the uninterpreted functions cleanOf/dirOf/baseOf/joinOf and
// assumes the axioms of specs/path.spec about them. This file evaluates every such axiom — the SMT-LIB text that is
// given to the solvers, read mechanically from the spec file, not a transcription — with the uninterpreted
// functions interpreted by the real path/filepath, on every tuple of strings over a small alphabet up to a length
// bound. It is a BOUNDED check of assumptions (labelled so in the evidence); it proves nothing, but an axiom that is
// false for short paths is found here instead of silently making proofs unsound.

import (
	"fmt"
	"os"
	"path/filepath"
	"regexp"
	"sort"
	"strings"
)

type sx struct {
	atom string
	list []*sx
}

func parseSx(s string) (*sx, string) {
	s = strings.TrimLeft(s, " \t\n")
	if s == "" {
		return nil, ""
	}
	if s[0] == '(' {
		n := &sx{list: []*sx{}}
		s = s[1:]
		for {
			s = strings.TrimLeft(s, " \t\n")
			if s == "" {
				return n, ""
			}
			if s[0] == ')' {
				return n, s[1:]
			}
			var c *sx
			c, s = parseSx(s)
			n.list = append(n.list, c)
		}
	}
	if s[0] == '"' {
		i := 1
		for i < len(s) {
			if s[i] == '"' {
				if i+1 < len(s) && s[i+1] == '"' {
					i += 2
					continue
				}
				break
			}
			i++
		}
		return &sx{atom: s[:i+1]}, s[i+1:]
	}
	i := 0
	for i < len(s) && !strings.ContainsRune(" \t\n()", rune(s[i])) {
		i++
	}
	return &sx{atom: s[:i]}, s[i:]
}

type axDefine struct {
	params []string
	body   *sx
}

type axEnv struct {
	defs map[string]*axDefine
	uf   map[string]func(args []interface{}) interface{}
}

func (e *axEnv) eval(n *sx, vars map[string]interface{}) interface{} {
	if n.list == nil {
		a := n.atom
		switch {
		case a == "true":
			return true
		case a == "false":
			return false
		case strings.HasPrefix(a, "\""):
			return strings.ReplaceAll(a[1:len(a)-1], "\"\"", "\"")
		}
		if v, ok := vars[a]; ok {
			return v
		}
		if isAllDigits(a) {
			var v int
			fmt.Sscanf(a, "%d", &v)
			return v
		}
		panic("axcheck: unbound symbol " + a)
	}
	head := n.list[0].atom
	args := n.list[1:]
	ev := func(i int) interface{} { return e.eval(args[i], vars) }
	switch head {
	case "!":
		return ev(0) // (! body :pattern …)
	case "not":
		return !ev(0).(bool)
	case "and":
		for i := range args {
			if !ev(i).(bool) {
				return false
			}
		}
		return true
	case "or":
		for i := range args {
			if ev(i).(bool) {
				return true
			}
		}
		return false
	case "=>":
		for i := 0; i < len(args)-1; i++ {
			if !ev(i).(bool) {
				return true
			}
		}
		return ev(len(args) - 1).(bool)
	case "=":
		return ev(0) == ev(1)
	case "ite":
		if ev(0).(bool) {
			return ev(1)
		}
		return ev(2)
	case "str.++":
		var b strings.Builder
		for i := range args {
			b.WriteString(ev(i).(string))
		}
		return b.String()
	case "str.contains":
		return strings.Contains(ev(0).(string), ev(1).(string))
	case "str.prefixof":
		return strings.HasPrefix(ev(1).(string), ev(0).(string))
	case "str.suffixof":
		return strings.HasSuffix(ev(1).(string), ev(0).(string))
	case "str.len":
		return len(ev(0).(string))
	case "str.substr":
		str, off, n := ev(0).(string), ev(1).(int), ev(2).(int)
		if off < 0 || off >= len(str) || n <= 0 {
			return ""
		}
		if off+n > len(str) {
			n = len(str) - off
		}
		return str[off : off+n]
	}
	if d, ok := e.defs[head]; ok {
		nv := map[string]interface{}{}
		for i, p := range d.params {
			nv[p] = ev(i)
		}
		return e.eval(d.body, nv)
	}
	if f, ok := e.uf[head]; ok {
		var as []interface{}
		for i := range args {
			as = append(as, ev(i))
		}
		return f(as)
	}
	panic("axcheck: no interpretation for " + head)
}

func isAllDigits(s string) bool {
	for _, c := range s {
		if c < '0' || c > '9' {
			return false
		}
	}
	return s != ""
}

func axStrings(alphabet string, maxLen int) []string {
	out := []string{""}
	prev := []string{""}
	for l := 1; l <= maxLen; l++ {
		var cur []string
		for _, p := range prev {
			for _, c := range alphabet {
				cur = append(cur, p+string(c))
			}
		}
		out = append(out, cur...)
		prev = cur
	}
	return out
}

// runAxCheck validates every axiom of specFile whose function symbols all have a real interpretation.
// Returns the number of failed axioms; prints one line per axiom.
var axLines []string // what the last runAxCheck established (kept for the evidence file)

func axPrintf(f string, a ...interface{}) {
	l := fmt.Sprintf(f, a...)
	axLines = append(axLines, strings.TrimSpace(l))
	if strings.HasPrefix(l, "AXCHECK-") || os.Getenv("GOVC_AXVERBOSE") != "" {
		fmt.Print(l)
	}
}

func runAxCheck(specFile string, maxLen1, maxLen2 int) int {
	data, err := os.ReadFile(specFile)
	if err != nil {
		fatal("%v", err)
	}
	env := &axEnv{defs: map[string]*axDefine{}, uf: map[string]func([]interface{}) interface{}{
		"cleanOf": func(a []interface{}) interface{} { return filepath.Clean(a[0].(string)) },
		"dirOf":   func(a []interface{}) interface{} { return filepath.Dir(a[0].(string)) },
		"baseOf":  func(a []interface{}) interface{} { return filepath.Base(a[0].(string)) },
		"joinOf":  func(a []interface{}) interface{} { return filepath.Join(a[0].(string), a[1].(string)) },
	}}
	defRe := regexp.MustCompile(`^(?:\[[^\]]*\]\s*)?define\s+(\w+)\(([^)]*)\)\s+\w+\s*=\s*(.*)$`)
	axRe := regexp.MustCompile(`^(?:\[[^\]]*\]\s*)?axiom\s+(\w+):\s*(.*)$`)
	type axiom struct {
		name string
		body *sx
	}
	var axioms []axiom
	for _, line := range strings.Split(string(data), "\n") {
		if m := defRe.FindStringSubmatch(line); m != nil {
			d := &axDefine{}
			for _, p := range strings.Split(m[2], ",") {
				f := strings.Fields(p)
				if len(f) > 0 {
					d.params = append(d.params, f[0])
				}
			}
			d.body, _ = parseSx(m[3])
			env.defs[m[1]] = d
		} else if m := axRe.FindStringSubmatch(line); m != nil {
			b, _ := parseSx(m[2])
			axioms = append(axioms, axiom{m[1], b})
		}
	}
	if len(axioms) == 0 {
		axPrintf("AXCHECK-ERROR: no axiom found in %s\n", specFile)
		return 1
	}
	// the alphabet makes separators, dots (".", "..", "a..b") and two distinct letters collide
	one := axStrings("/.ab", maxLen1)
	two := axStrings("/.a", maxLen2)
	failed := 0
	sort.Slice(axioms, func(i, j int) bool { return axioms[i].name < axioms[j].name })
	for _, ax := range axioms {
		if len(ax.body.list) < 3 || ax.body.list[0].atom != "forall" {
			axPrintf("AXCHECK-ERROR: axiom %s is not a universally quantified formula\n", ax.name)
			failed++
			continue
		}
		var names []string
		for _, b := range ax.body.list[1].list {
			names = append(names, b.list[0].atom)
		}
		body := ax.body.list[2]
		tuples, nonvac := 0, 0
		var cex []string
		check := func(vals []string) {
			vars := map[string]interface{}{}
			for i, n := range names {
				vars[n] = vals[i]
			}
			tuples++
			if !env.eval(body, vars).(bool) {
				if len(cex) < 3 {
					cex = append(cex, fmt.Sprintf("%q", vals))
				} else if len(cex) == 3 {
					cex = append(cex, "…")
				}
			} else if nonVacuous(env, body, vars) {
				nonvac++
			}
		}
		switch len(names) {
		case 1:
			for _, a := range one {
				check([]string{a})
			}
		case 2:
			for _, a := range two {
				for _, b := range two {
					check([]string{a, b})
				}
			}
		default:
			axPrintf("AXCHECK-ERROR: axiom %s has %d variables (only 1 or 2 supported)\n", ax.name, len(names))
			failed++
			continue
		}
		if len(cex) > 0 {
			failed++
			axPrintf("AXCHECK-FAILED: axiom %s is FALSE for the real path/filepath, e.g. %s = %s\n", ax.name, strings.Join(names, ","), strings.Join(cex, " "))
		} else if nonvac == 0 {
			failed++
			axPrintf("AXCHECK-FAILED: axiom %s was only vacuously true on %d tuples (hypothesis never satisfied)\n", ax.name, tuples)
		} else {
			axPrintf("axcheck: axiom %-22s holds on %d tuples (%d with a true hypothesis) [bounded: alphabet %s, length <= %d]\n", ax.name, tuples, nonvac,
				map[int]string{1: "{/ . a b}", 2: "{/ . a}"}[len(names)], map[int]int{1: maxLen1, 2: maxLen2}[len(names)])
		}
	}
	// encoding facts the intrinsics rely on (not axioms of the spec file)
	bad := 0
	three := axStrings("/.a", 3)
	for _, a := range three {
		for _, b := range three {
			for _, c := range three {
				if filepath.Join(a, b, c) != filepath.Join(filepath.Join(a, b), c) {
					bad++
				}
			}
		}
	}
	if bad > 0 {
		failed++
		axPrintf("AXCHECK-FAILED: filepath.Join(a,b,c) != Join(Join(a,b),c) on %d triples (the Join intrinsic nests joinOf)\n", bad)
	} else {
		axPrintf("axcheck: encoding Join(a,b,c) == Join(Join(a,b),c) holds on %d triples [bounded: length <= 3]\n", len(three)*len(three)*len(three))
	}
	return failed
}

// nonVacuous: for "(=> h c)" bodies, whether the hypothesis holds; everything else counts as non-vacuous.
func nonVacuous(env *axEnv, body *sx, vars map[string]interface{}) bool {
	for body.list != nil && body.list[0].atom == "!" {
		body = body.list[1]
	}
	if body.list != nil && body.list[0].atom == "=>" {
		for _, h := range body.list[1 : len(body.list)-1] {
			if !env.eval(h, vars).(bool) {
				return false
			}
		}
	}
	return true
}
