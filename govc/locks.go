package main

import (
	"fmt"
	"go/token"
	"go/types"
	"strings"

	"golang.org/x/tools/go/ssa"
)

// Lock discipline (C13, C12, C07): a typestate per mutex object, decided along every path.
//   - Lock/RLock on a free mutex only (a second acquisition by the same call chain would self-deadlock);
//   - Unlock/RUnlock of a mutex held in that mode;
//   - a field declared "guarded T.f by mu" is read holding mu (R or W) and written - or handed to a mutating
//     method - holding mu for writing; objects still under construction (allocated in this activation) are exempt;
//   - every lock taken by the function under proof is released on every return path;
//   - no escape: the address of a guarded field is never turned into an interface value or handed to a function as an
//     ordinary argument (it may only be the receiver of a method call made under the lock): whoever gets that address
//     can use the field without the mutex - objects under construction included;
//   - atomic update: a guarded field is not written in one critical section on the strength of a value read in an
//     EARLIER critical section (lock released in between) without being read again in the writing section - the
//     check-then-act / snapshot-then-publish pattern that loses concurrent updates.

type guardInfo struct {
	mutexIdx int
	fields   map[int]string
}

func (ex *Exec) guardFor(t types.Type) *guardInfo {
	n, ok := t.(*types.Named)
	if !ok || n.Obj().Pkg() == nil {
		return nil
	}
	key := n.Obj().Pkg().Path() + "." + n.Obj().Name()
	if gi, ok := ex.guards[key]; ok {
		return gi
	}
	var gi *guardInfo
	st := structOf(n)
	for _, g := range ex.lib.Guarded {
		if g.Pkg+"."+g.Type != key || !tagActive(g.Tags, ex.prop) || st == nil {
			continue
		}
		if gi == nil {
			gi = &guardInfo{mutexIdx: -1, fields: map[int]string{}}
		}
		for i := 0; i < st.NumFields(); i++ {
			if st.Field(i).Name() == g.Mutex {
				gi.mutexIdx = i
			}
			if st.Field(i).Name() == g.Field {
				gi.fields[i] = g.Type + "." + g.Field
			}
		}
		if gi.mutexIdx < 0 {
			ex.cerr("guarded: type %s has no mutex field %s", g.Type, g.Mutex)
		}
	}
	ex.guards[key] = gi
	return gi
}

func (ex *Exec) mutexKey(st *State, p *Ptr) string {
	t := ex.asTerm(st, &Ptr{Ref: p.Ref, Root: p.Root, Cell: p.Cell, Global: p.Global})
	if t == nil {
		return p.String()
	}
	return t.S + fmt.Sprint(p.Path)
}

func isMutexMethod(key string) (op string, ok bool) {
	for _, m := range []string{"Lock", "RLock", "Unlock", "RUnlock"} {
		if strings.HasSuffix(key, "Mutex)."+m) {
			return m, true
		}
	}
	return "", false
}

func (ex *Exec) lockObl(st *State, what, detail string, ok bool, pos token.Pos) {
	goal := TFalse
	if ok {
		goal = TTrue
	}
	ex.lockOrd[what]++
	ex.addObl(st, "lock", ex.oblName("lock", "#"+what), goal, pos, detail)
}

// lockOp interprets a mutex method call; returns true when the call was one.
func (ex *Exec) lockOp(fr *Frame, st *State, key string, args []Val, pos token.Pos) bool {
	op, ok := isMutexMethod(key)
	if !ok || len(args) == 0 {
		return false
	}
	if (op == "Lock" || op == "RLock") && fr.depth == 0 {
		// ghosts declared "resetonlock" (Bool) forget what they recorded when the function under proof itself (not a
		// helper it calls, which locks its own objects) takes a mutex: "x has been re-read since the mutex was taken"
		for name, g := range ex.lib.Ghosts {
			if g.ResetOnLock && tagActive(g.Tags, ex.prop) {
				st.ghost[name] = TFalse
			}
		}
	}
	p, ok := args[0].(*Ptr)
	if !ok {
		return true
	}
	if !ex.lockChecks() {
		return true
	}
	k := ex.mutexKey(st, p)
	cur := st.locks[k]
	name := "mutex"
	if p.Root != nil {
		name = pathKey(p.Root, p.Path)
	} else if p.Cell != nil {
		name = pathKey(p.Cell.T, p.Path)
	}
	switch op {
	case "Lock":
		ex.lockObl(st, "acquire@"+name, "Lock() of a mutex this call chain does not already hold", cur == 0, pos)
		st.setLock(k, 2)
		st.setSec("#"+k, st.secs["#"+k]+1)
	case "RLock":
		ex.lockObl(st, "acquire@"+name, "RLock() of a mutex this call chain does not already hold", cur == 0, pos)
		st.setLock(k, 1)
		st.setSec("#"+k, st.secs["#"+k]+1)
	case "Unlock":
		ex.lockObl(st, "release@"+name, "Unlock() of a mutex held for writing", cur == 2, pos)
		st.setLock(k, 0)
	case "RUnlock":
		ex.lockObl(st, "release@"+name, "RUnlock() of a mutex held for reading", cur == 1, pos)
		st.setLock(k, 0)
	}
	return true
}

func (st *State) setLock(k string, v int) {
	n := make(map[string]int, len(st.locks)+1)
	for a, b := range st.locks {
		n[a] = b
	}
	if v == 0 {
		delete(n, k)
	} else {
		n[k] = v
	}
	st.locks = n
}

func (ex *Exec) lockChecks() bool {
	c := ex.lib.Contracts[ex.curKey]
	if c == nil {
		return false
	}
	for _, cl := range c.Clauses {
		if cl.Kind == "check" && tagActive(cl.Tags, ex.prop) {
			for _, n := range cl.Names {
				if n == "locks" {
					return true
				}
			}
		}
	}
	return false
}

// guardedAccess checks an access through pointer p (a field address) in mode need (1 read, 2 write).
func (ex *Exec) guardedAccess(fr *Frame, st *State, p *Ptr, need int, how string, pos token.Pos) {
	if p == nil || p.Ref == nil || len(p.Path) == 0 || !ex.lockChecks() {
		return // objects under construction (local cells) are not shared yet
	}
	gi := ex.guardFor(p.Root)
	if gi == nil || gi.mutexIdx < 0 {
		return
	}
	fname, guarded := gi.fields[p.Path[0]]
	if !guarded {
		return
	}
	k := ex.mutexKey(st, &Ptr{Ref: p.Ref, Root: p.Root, Path: []int{gi.mutexIdx}})
	held := st.locks[k]
	mode := "read"
	if need == 2 {
		mode = "write"
	}
	ex.lockObl(st, mode+"@"+fname, fmt.Sprintf("%s of guarded field %s (%s) holding its mutex %s", mode, fname, how, map[int]string{1: "for reading or writing", 2: "for writing"}[need]), held >= need, pos)
	// atomic update
	cur := st.secs["#"+k]
	fk := k + "|" + fname
	if need == 1 {
		st.setSec(fk, cur)
	} else if held >= 2 {
		last, seen := st.secs[fk]
		ex.lockObl(st, "atomic@"+fname, fmt.Sprintf("write of guarded field %s in a critical section that has read it itself, or no earlier section of this call has (no snapshot-then-publish across a released lock)", fname), !seen || last == cur, pos)
		st.setSec(fk, cur)
	}
}

func (st *State) setSec(k string, v int) {
	n := make(map[string]int, len(st.secs)+1)
	for a, b := range st.secs {
		n[a] = b
	}
	n[k] = v
	st.secs = n
}

// calleeSections: a method of the same object that takes the object's mutex itself and reads guarded fields has, from
// the caller's point of view, run a critical section of its own in which those fields were read.
func (ex *Exec) calleeSections(fr *Frame, st *State, fn *ssa.Function, args []Val) {
	if !ex.lockChecks() || fn == nil || len(args) == 0 || fn.Signature.Recv() == nil || len(fn.Blocks) == 0 {
		return
	}
	p, ok := args[0].(*Ptr)
	if !ok || p.Ref == nil {
		return
	}
	gi := ex.guardFor(p.Root)
	if gi == nil || gi.mutexIdx < 0 {
		return
	}
	k := ex.mutexKey(st, &Ptr{Ref: p.Ref, Root: p.Root, Path: []int{gi.mutexIdx}})
	if st.locks[k] != 0 {
		return // the caller holds the mutex: the callee runs inside the caller's section
	}
	locks := false
	reads := map[string]bool{}
	for _, b := range fn.Blocks {
		for _, ins := range b.Instrs {
			switch x := ins.(type) {
			case *ssa.FieldAddr:
				if !types.Identical(derefType(x.X.Type()), p.Root) {
					continue
				}
				if fname, g := gi.fields[x.Field]; g {
					reads[fname] = true
				}
			case ssa.CallInstruction:
				if sc := x.Common().StaticCallee(); sc != nil {
					if op, ok := isMutexMethod(funcKey(sc)); ok && (op == "Lock" || op == "RLock") {
						locks = true
					}
				}
			}
		}
	}
	if !locks || len(reads) == 0 {
		return
	}
	cur := st.secs["#"+k] + 1
	st.setSec("#"+k, cur)
	for f := range reads {
		st.setSec(k+"|"+f, cur)
	}
}

var readOnlyMethods = map[string]bool{"String": true, "Len": true, "Cap": true, "Load": true, "IsClosed": true}

// guardedArgs: a guarded field's address handed to a method call is a write unless the method is known read-only.
func (ex *Exec) guardedArgs(fr *Frame, st *State, fn *ssa.Function, args []Val, pos token.Pos) {
	if !ex.lockChecks() {
		return
	}
	for _, a := range args {
		if p, ok := a.(*Ptr); ok && p.Ref != nil && len(p.Path) > 0 {
			need := 2
			if readOnlyMethods[fn.Name()] {
				need = 1
			}
			ex.guardedAccess(fr, st, p, need, "passed to "+fn.Name(), pos)
		}
	}
}

// heldAtEntry: "check locks held:write" / "held:read" - a helper that must be called with the receiver's mutex held.
func (ex *Exec) heldAtEntry() int {
	c := ex.lib.Contracts[ex.curKey]
	if c == nil {
		return 0
	}
	for _, cl := range c.Clauses {
		if cl.Kind == "check" && tagActive(cl.Tags, ex.prop) {
			for _, n := range cl.Names {
				switch n {
				case "held:write":
					return 2
				case "held:read":
					return 1
				}
			}
		}
	}
	return 0
}

// initLocks puts the receiver's mutex in the state the contract says the caller holds it in.
func (ex *Exec) initLocks(st *State, fn *ssa.Function, args []Val) {
	h := ex.heldAtEntry()
	if h == 0 || len(args) == 0 {
		return
	}
	p, ok := args[0].(*Ptr)
	if !ok || p.Ref == nil {
		return
	}
	gi := ex.guardFor(p.Root)
	if gi == nil || gi.mutexIdx < 0 {
		return
	}
	k := ex.mutexKey(st, &Ptr{Ref: p.Ref, Root: p.Root, Path: []int{gi.mutexIdx}})
	st.setLock(k, h)
	ex.entryLocks = map[string]int{k: h}
}

// releasedAtReturn: every mutex taken in this activation is free again (those held by the caller still are).
func (ex *Exec) releasedAtReturn(st *State, pos token.Pos) {
	if !ex.lockChecks() {
		return
	}
	same := len(st.locks) == len(ex.entryLocks)
	for k, v := range ex.entryLocks {
		if st.locks[k] != v {
			same = false
		}
	}
	ex.lockObl(st, "released", "every mutex acquired by the function is released on this return path", same, pos)
}

// guardedEscape: v (about to become an interface value, or an ordinary argument) points into a guarded field.
func (ex *Exec) guardedEscape(fr *Frame, st *State, v Val, how string, pos token.Pos) {
	if !ex.lockChecks() {
		return
	}
	p, ok := v.(*Ptr)
	if !ok || len(p.Path) == 0 {
		return
	}
	var t types.Type
	switch {
	case p.Root != nil:
		t = p.Root
	case p.Cell != nil:
		t = p.Cell.T
	default:
		return
	}
	for _, idx := range p.Path {
		if gi := ex.guardFor(t); gi != nil && gi.mutexIdx >= 0 {
			if fname, g := gi.fields[idx]; g {
				ex.lockObl(st, "noescape@"+fname, fmt.Sprintf("the address of guarded field %s does not escape (%s): its holder could use the field without the mutex", fname, how), false, pos)
				return
			}
		}
		switch u := t.Underlying().(type) {
		case *types.Struct:
			if idx < 0 || idx >= u.NumFields() {
				return
			}
			t = u.Field(idx).Type()
		case *types.Array:
			t = u.Elem()
		default:
			return
		}
	}
}

// guardedOwned: a slice (or map) stored into a guarded field - also of an object still under construction - is the
// object's own: never the very slice a caller handed in (the caller keeps it and can read, append to or overwrite its
// backing array without the mutex, and so can another object built from the same slice). Decided on the SSA origin of
// the stored value; only a value that DEFINITELY is a parameter or a captured variable of the function fails.
func (ex *Exec) guardedOwned(fr *Frame, st *State, p *Ptr, x *ssa.Store) {
	if !ex.lockChecks() || len(p.Path) == 0 {
		return
	}
	switch x.Val.Type().Underlying().(type) {
	case *types.Slice, *types.Map:
	default:
		return
	}
	var t types.Type
	switch {
	case p.Root != nil:
		t = p.Root
	case p.Cell != nil:
		t = p.Cell.T
	default:
		return
	}
	for k, idx := range p.Path {
		if gi := ex.guardFor(t); gi != nil && gi.mutexIdx >= 0 {
			if fname, g := gi.fields[idx]; g {
				if k != len(p.Path)-1 {
					return // a store INTO the field's value (an element), not of the field itself
				}
				ex.lockObl(st, "owned@"+fname, fmt.Sprintf("the slice or map stored into guarded field %s is the object's own, not one a caller handed in (aliasing: its other holders use it without the mutex)", fname), !comesFromCaller(x.Val, map[ssa.Value]bool{}), x.Pos())
				return
			}
		}
		u, ok := t.Underlying().(*types.Struct)
		if !ok || idx < 0 || idx >= u.NumFields() {
			return
		}
		t = u.Field(idx).Type()
	}
}

// comesFromCaller: v is, on some path, a parameter or free variable itself (possibly re-sliced, or appended to - append
// reuses the backing array of its first argument when the capacity allows).
func comesFromCaller(v ssa.Value, seen map[ssa.Value]bool) bool {
	if seen[v] {
		return false
	}
	seen[v] = true
	switch x := v.(type) {
	case *ssa.Parameter, *ssa.FreeVar:
		return true
	case *ssa.Slice:
		return comesFromCaller(x.X, seen)
	case *ssa.ChangeType:
		return comesFromCaller(x.X, seen)
	case *ssa.Phi:
		for _, e := range x.Edges {
			if comesFromCaller(e, seen) {
				return true
			}
		}
	case *ssa.UnOp:
		if x.Op != token.MUL {
			return false
		}
		a, ok := x.X.(*ssa.Alloc)
		if !ok || a.Referrers() == nil {
			return false
		}
		for _, r := range *a.Referrers() {
			if s, ok := r.(*ssa.Store); ok && s.Addr == a && comesFromCaller(s.Val, seen) {
				return true
			}
		}
	case *ssa.Call:
		if b, ok := x.Call.Value.(*ssa.Builtin); ok && b.Name() == "append" && len(x.Call.Args) > 0 {
			return comesFromCaller(x.Call.Args[0], seen)
		}
	}
	return false
}
