package main

func init() { replayDrivers["hashreset"] = replayHashReset }

// replayHashReset: a calculation that fails midway (reader error after some bytes),
// then the digest of "abc" with the same hasher object against a fresh hasher.
func replayHashReset(ex *Exec, o *Obligation) (string, string, string, bool, error) {
	src := `package hashing

import (
	"context"
	"errors"
	"strings"
	"testing"
)

type verifFailingReader struct{ n int }

func (r *verifFailingReader) Read(p []byte) (int, error) {
	if r.n == 0 {
		r.n++
		copy(p, "some bytes that poison the state")
		return 10, nil
	}
	return 0, errors.New("boom")
}

func TestVerifReplay(t *testing.T) {
	for _, alg := range []string{HashMd5, HashSha1, HashSha256, HashMurmur, HashXXHash, HashBlake2256} {
		h, err := NewHashingAlgorithm(alg)
		if err != nil {
			t.Fatal(err)
		}
		if _, err := h.(*hashingAlgo).CalculateWithContext(context.Background(), &verifFailingReader{}); err == nil {
			t.Fatal("expected the first calculation to fail")
		}
		got, err := h.Calculate(strings.NewReader("abc"))
		if err != nil {
			t.Fatal(err)
		}
		fresh, _ := NewHashingAlgorithm(alg)
		want, _ := fresh.Calculate(strings.NewReader("abc"))
		if got != want {
			t.Fatalf("REPRODUCED: %s digest of \"abc\" after a failed calculation on the same hasher is %s, a fresh hasher gives %s", alg, got, want)
		}
	}
	t.Logf("NOT-REPRODUCED")
}
`
	return "hashing", src, "^TestVerifReplay$", false, nil
}
