package main

func init() { replayDrivers["stringwriter-race"] = replayStringWriterRace }

// replayStringWriterRace: output and error loggers of a string logger share one StringWriter; two goroutines
// logging at once under the race detector.
func replayStringWriterRace(ex *Exec, o *Obligation) (string, string, string, bool, error) {
	src := `package logs

import (
	"sync"
	"testing"
)

func TestVerifReplay(t *testing.T) {
	l, err := NewPlainStringLogger()
	if err != nil {
		t.Fatal(err)
	}
	var wg sync.WaitGroup
	wg.Add(2)
	go func() {
		defer wg.Done()
		for i := 0; i < 2000; i++ {
			l.Log("output message")
		}
	}()
	go func() {
		defer wg.Done()
		for i := 0; i < 2000; i++ {
			l.LogError("error message")
		}
	}()
	wg.Wait()
	t.Logf("NOT-REPRODUCED (no race reported)")
}
`
	return "logs", src, "^TestVerifReplay$", true, nil
}
