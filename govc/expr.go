package main

import (
	"fmt"
	"strings"
)

// Contract expression language: Go-like expressions plus ==>, <==>, old(e),
// forall/exists x Sort :: e, and c ? a : b.

type Expr interface{ String() string }

type EIdent struct{ Name string }
type ELit struct {
	Kind string // int float string bool nil
	Text string
}
type EUn struct {
	Op string
	X  Expr
}
type EBin struct {
	Op   string
	X, Y Expr
}
type ECall struct {
	Fun  string
	Args []Expr
}
type ESel struct {
	X   Expr
	Sel string
}
type EIndex struct{ X, I Expr }
type EQuant struct {
	Forall bool
	Vars   [][2]string // name, sort
	Body   Expr
}
type ECond struct{ C, A, B Expr }

func (e *EIdent) String() string { return e.Name }
func (e *ELit) String() string {
	if e.Kind == "string" {
		return fmt.Sprintf("%q", e.Text)
	}
	return e.Text
}
func (e *EUn) String() string  { return e.Op + e.X.String() }
func (e *EBin) String() string { return "(" + e.X.String() + " " + e.Op + " " + e.Y.String() + ")" }
func (e *ECall) String() string {
	var as []string
	for _, a := range e.Args {
		as = append(as, a.String())
	}
	return e.Fun + "(" + strings.Join(as, ", ") + ")"
}
func (e *ESel) String() string   { return e.X.String() + "." + e.Sel }
func (e *EIndex) String() string { return e.X.String() + "[" + e.I.String() + "]" }
func (e *EQuant) String() string {
	q := "exists"
	if e.Forall {
		q = "forall"
	}
	var vs []string
	for _, v := range e.Vars {
		vs = append(vs, v[0]+" "+v[1])
	}
	return "(" + q + " " + strings.Join(vs, ", ") + " :: " + e.Body.String() + ")"
}
func (e *ECond) String() string {
	return "(" + e.C.String() + " ? " + e.A.String() + " : " + e.B.String() + ")"
}

type lexTok struct {
	kind string // id int float string op eof
	text string
	pos  int
}

func lexExpr(s string) ([]lexTok, error) {
	var toks []lexTok
	i := 0
	ops := []string{"<==>", "==>", "::", ":=", "<<", ">>", "<=", ">=", "==", "!=", "&&", "||", "&^",
		"+", "-", "*", "/", "%", "<", ">", "!", "(", ")", "[", "]", ",", "?", ":", ".", "&", "|", "^", "#"}
	for i < len(s) {
		c := s[i]
		switch {
		case c == ' ' || c == '\t' || c == '\n':
			i++
		case c == '"':
			j := i + 1
			var b strings.Builder
			for j < len(s) && s[j] != '"' {
				if s[j] == '\\' && j+1 < len(s) {
					j++
					switch s[j] {
					case 'n':
						b.WriteByte('\n')
					case 't':
						b.WriteByte('\t')
					case 'x':
						var v int
						fmt.Sscanf(s[j+1:j+3], "%02x", &v)
						b.WriteByte(byte(v))
						j += 2
					default:
						b.WriteByte(s[j])
					}
				} else {
					b.WriteByte(s[j])
				}
				j++
			}
			if j >= len(s) {
				return nil, fmt.Errorf("unterminated string at %d", i)
			}
			toks = append(toks, lexTok{"string", b.String(), i})
			i = j + 1
		case c == '\'':
			if i+2 < len(s) && s[i+2] == '\'' {
				toks = append(toks, lexTok{"int", fmt.Sprint(int(s[i+1])), i})
				i += 3
			} else {
				return nil, fmt.Errorf("bad rune literal at %d", i)
			}
		case c >= '0' && c <= '9':
			j := i
			kind := "int"
			if strings.HasPrefix(s[i:], "0x") {
				j = i + 2
				for j < len(s) && strings.ContainsRune("0123456789abcdefABCDEF_", rune(s[j])) {
					j++
				}
			} else {
				for j < len(s) && (s[j] >= '0' && s[j] <= '9' || s[j] == '_') {
					j++
				}
				if j < len(s) && s[j] == '.' && j+1 < len(s) && s[j+1] >= '0' && s[j+1] <= '9' {
					kind = "float"
					j++
					for j < len(s) && s[j] >= '0' && s[j] <= '9' {
						j++
					}
				}
				if j < len(s) && (s[j] == 'e' || s[j] == 'E') {
					kind = "float"
					j++
					if j < len(s) && (s[j] == '+' || s[j] == '-') {
						j++
					}
					for j < len(s) && s[j] >= '0' && s[j] <= '9' {
						j++
					}
				}
			}
			toks = append(toks, lexTok{kind, strings.ReplaceAll(s[i:j], "_", ""), i})
			i = j
		case c == '_' || (c >= 'a' && c <= 'z') || (c >= 'A' && c <= 'Z'):
			j := i
			for j < len(s) && (s[j] == '_' || (s[j] >= 'a' && s[j] <= 'z') || (s[j] >= 'A' && s[j] <= 'Z') || (s[j] >= '0' && s[j] <= '9')) {
				j++
			}
			toks = append(toks, lexTok{"id", s[i:j], i})
			i = j
		default:
			matched := false
			for _, op := range ops {
				if strings.HasPrefix(s[i:], op) {
					toks = append(toks, lexTok{"op", op, i})
					i += len(op)
					matched = true
					break
				}
			}
			if !matched {
				return nil, fmt.Errorf("unexpected character %q at %d in %q", c, i, s)
			}
		}
	}
	toks = append(toks, lexTok{"eof", "", len(s)})
	return toks, nil
}

type exprParser struct {
	toks []lexTok
	p    int
	src  string
}

func ParseExpr(s string) (e Expr, err error) {
	toks, err := lexExpr(s)
	if err != nil {
		return nil, err
	}
	ps := &exprParser{toks: toks, src: s}
	defer func() {
		if r := recover(); r != nil {
			if pe, ok := r.(parseErr); ok {
				err = fmt.Errorf("%s in %q", string(pe), s)
				return
			}
			panic(r)
		}
	}()
	e = ps.parseIff()
	if ps.peek().kind != "eof" {
		ps.fail("unexpected %q", ps.peek().text)
	}
	return e, nil
}

type parseErr string

func (p *exprParser) fail(f string, a ...interface{}) { panic(parseErr(fmt.Sprintf(f, a...))) }
func (p *exprParser) peek() lexTok                    { return p.toks[p.p] }
func (p *exprParser) next() lexTok                    { t := p.toks[p.p]; p.p++; return t }
func (p *exprParser) isOp(s string) bool {
	t := p.peek()
	return t.kind == "op" && t.text == s
}
func (p *exprParser) expectOp(s string) {
	if !p.isOp(s) {
		p.fail("expected %q, found %q", s, p.peek().text)
	}
	p.p++
}

func (p *exprParser) parseIff() Expr {
	x := p.parseImplies()
	for p.isOp("<==>") {
		p.next()
		y := p.parseImplies()
		x = &EBin{"<==>", x, y}
	}
	return x
}

func (p *exprParser) parseImplies() Expr {
	x := p.parseCond()
	if p.isOp("==>") {
		p.next()
		y := p.parseImplies()
		return &EBin{"==>", x, y}
	}
	return x
}

func (p *exprParser) parseCond() Expr {
	c := p.parseBin(0)
	if p.isOp("?") {
		p.next()
		a := p.parseCond()
		p.expectOp(":")
		b := p.parseCond()
		return &ECond{c, a, b}
	}
	return c
}

var binPrec = map[string]int{
	"||": 1, "&&": 2,
	"==": 3, "!=": 3, "<": 3, "<=": 3, ">": 3, ">=": 3,
	"+": 4, "-": 4, "|": 4, "^": 4,
	"*": 5, "/": 5, "%": 5, "<<": 5, ">>": 5, "&": 5, "&^": 5,
}

func (p *exprParser) parseBin(minPrec int) Expr {
	x := p.parseUnary()
	for {
		t := p.peek()
		if t.kind != "op" {
			return x
		}
		pr, ok := binPrec[t.text]
		if !ok || pr <= minPrec {
			return x
		}
		p.next()
		y := p.parseBin(pr)
		x = &EBin{t.text, x, y}
	}
}

func (p *exprParser) parseUnary() Expr {
	if p.isOp("!") {
		p.next()
		return &EUn{"!", p.parseUnary()}
	}
	if p.isOp("-") {
		p.next()
		return &EUn{"-", p.parseUnary()}
	}
	return p.parsePostfix()
}

func (p *exprParser) parsePostfix() Expr {
	x := p.parsePrimary()
	for {
		switch {
		case p.isOp("."):
			p.next()
			t := p.next()
			if t.kind != "id" {
				p.fail("expected field name after '.'")
			}
			x = &ESel{x, t.text}
		case p.isOp("["):
			p.next()
			i := p.parseIff()
			p.expectOp("]")
			x = &EIndex{x, i}
		case p.isOp("("):
			name := ""
			switch f := x.(type) {
			case *EIdent:
				name = f.Name
			case *ESel:
				name = f.String()
			default:
				p.fail("call of non-identifier")
			}
			p.next()
			var args []Expr
			for !p.isOp(")") {
				args = append(args, p.parseIff())
				if p.isOp(",") {
					p.next()
				}
			}
			p.expectOp(")")
			x = &ECall{name, args}
		default:
			return x
		}
	}
}

func (p *exprParser) parsePrimary() Expr {
	t := p.next()
	switch t.kind {
	case "int", "float", "string":
		return &ELit{t.kind, t.text}
	case "id":
		switch t.text {
		case "true", "false":
			return &ELit{"bool", t.text}
		case "nil":
			return &ELit{"nil", "nil"}
		case "forall", "exists":
			q := &EQuant{Forall: t.text == "forall"}
			for {
				n := p.next()
				if n.kind != "id" {
					p.fail("expected bound variable")
				}
				s := p.next()
				if s.kind != "id" {
					p.fail("expected sort of bound variable")
				}
				q.Vars = append(q.Vars, [2]string{n.text, s.text})
				if p.isOp(",") {
					p.next()
					continue
				}
				break
			}
			p.expectOp("::")
			q.Body = p.parseIff()
			return q
		}
		return &EIdent{t.text}
	case "op":
		if t.text == "(" {
			e := p.parseIff()
			p.expectOp(")")
			return e
		}
	}
	p.fail("unexpected %q", t.text)
	return nil
}
