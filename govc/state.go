package main

import (
	"fmt"
	"go/types"
	"strings"

	"golang.org/x/tools/go/ssa"
)

type Def struct {
	Name string
	Sort string
	Body string // "" = declare-const
	Ord  int
}

// State is the symbolic state of one path.
type State struct {
	pc      []*Term
	cells   map[*Cell]Val
	heap    map[string]*Term // key -> array term (Array Ref Sort)
	ghost   map[string]*Term
	globals map[*ssa.Global]Val
	trace   []string
	dead    bool
	unsupp  []string // unsupported constructs met on this path
	pcSet   map[string]bool
	locks   map[string]int // mutex typestate: 1 held for reading, 2 for writing (copy-on-write)
	secs    map[string]int // critical sections: "#"+mutex -> sections entered so far; mutex+"|"+field -> section of its last read (copy-on-write)
	fresh   bool           // C09: the context was consulted since the current loop iteration began
	ops     int            // straight-line backend operations since last context check (C09)
}

func NewState() *State {
	return &State{cells: map[*Cell]Val{}, heap: map[string]*Term{}, ghost: map[string]*Term{}, globals: map[*ssa.Global]Val{}}
}

func (s *State) Clone() *State {
	n := &State{
		pc:      append([]*Term(nil), s.pc...),
		cells:   make(map[*Cell]Val, len(s.cells)),
		heap:    make(map[string]*Term, len(s.heap)),
		ghost:   make(map[string]*Term, len(s.ghost)),
		globals: make(map[*ssa.Global]Val, len(s.globals)),
		trace:   append([]string(nil), s.trace...),
		unsupp:  append([]string(nil), s.unsupp...),
		ops:     s.ops,
		fresh:   s.fresh,
		locks:   s.locks,
		secs:    s.secs,
		pcSet:   make(map[string]bool, len(s.pcSet)),
	}
	for k := range s.pcSet {
		n.pcSet[k] = true
	}
	for k, v := range s.cells {
		n.cells[k] = v
	}
	for k, v := range s.heap {
		n.heap[k] = v
	}
	for k, v := range s.ghost {
		n.ghost[k] = v
	}
	for k, v := range s.globals {
		n.globals[k] = v
	}
	return n
}

func (s *State) Assume(t *Term) {
	if t.S == "true" {
		return
	}
	if s.pcSet == nil {
		s.pcSet = map[string]bool{}
	}
	s.pcSet[t.S] = true
	if t.S == "false" {
		s.dead = true
	}
	s.pc = append(s.pc, t)
}

func (s *State) Tracef(f string, a ...interface{}) {
	s.trace = append(s.trace, fmt.Sprintf(f, a...))
}

// ---------------------------------------------------------------- fresh

func (ex *Exec) freshName(hint string) string {
	ex.nfresh++
	return fmt.Sprintf("%s!%d", sanitizeName(hint), ex.nfresh)
}

func (ex *Exec) declare(hint, sort string) *Term {
	n := ex.freshName(hint)
	d := &Def{Name: n, Sort: sort, Ord: len(ex.defOrder)}
	ex.defs[n] = d
	ex.defOrder = append(ex.defOrder, d)
	return &Term{S: n, Sort: sort}
}

// define introduces a name for a term (keeps queries linear in size).
func (ex *Exec) define(hint string, t *Term) *Term {
	if len(t.S) < 48 {
		return t
	}
	n := ex.freshName(hint)
	d := &Def{Name: n, Sort: t.Sort, Body: t.S, Ord: len(ex.defOrder)}
	ex.defs[n] = d
	ex.defOrder = append(ex.defOrder, d)
	return &Term{S: n, Sort: t.Sort, Signed: t.Signed}
}

func (ex *Exec) freshTerm(hint, sort string, signed bool) *Term {
	t := ex.declare(hint, sort)
	t.Signed = signed
	return t
}

// elemSort returns the SMT sort used for slice elements / heap leaves; non
// scalar types are represented by opaque references.
func elemSort(t types.Type) string {
	if s, _ := sortOfType(t); s != "" {
		return s
	}
	return SRef
}

// freshVal builds an unconstrained symbolic value of Go type t; facts that
// hold for every Go value of that type (0 <= len) are assumed on st.
func (ex *Exec) freshVal(st *State, t types.Type, hint string) Val {
	switch u := t.Underlying().(type) {
	case *types.Basic:
		s, signed, ok := sortOfBasic(u)
		if !ok {
			return ex.freshTerm(hint, SRef, false)
		}
		return ex.freshTerm(hint, s, signed)
	case *types.Pointer:
		r := ex.freshTerm(hint, SRef, false)
		if st != nil {
			// pre-existing objects have non-negative references; objects allocated on a path are negative
			st.Assume(app(SBool, ">=", r, IntConst(0)))
		}
		return &Ptr{Ref: r, Root: u.Elem()}
	case *types.Struct:
		sv := &StructV{T: t, F: make([]Val, u.NumFields())}
		for i := 0; i < u.NumFields(); i++ {
			sv.F[i] = ex.freshVal(st, u.Field(i).Type(), hint+"."+u.Field(i).Name())
		}
		return sv
	case *types.Interface:
		s, _ := sortOfType(t)
		return &IfaceV{Sym: ex.freshTerm(hint, s, false)}
	case *types.Slice:
		sl := &SliceV{Elem: u.Elem(), Len: ex.freshTerm(hint+"_len", bvSort(64), true), Back: ex.freshTerm(hint+"_back", SRef, false)}
		if st != nil {
			st.Assume(app(SBool, "bvsge", sl.Len, BVInt(0, 64, true)))
			st.Assume(app(SBool, "bvsle", sl.Len, BVInt(1<<40, 64, true)))
			st.Assume(app(SBool, ">=", sl.Back, IntConst(0)))
		}
		return sl
	case *types.Array:
		if u.Len() <= 32 {
			av := &ArrayV{T: t, E: make([]Val, u.Len())}
			for i := range av.E {
				av.E[i] = ex.freshVal(st, u.Elem(), fmt.Sprintf("%s_%d", hint, i))
			}
			return av
		}
		return ex.freshTerm(hint, SRef, false)
	case *types.Map:
		return &MapV{Sym: ex.freshTerm(hint, SRef, false), K: u.Key(), V: u.Elem()}
	case *types.Signature:
		return &FuncV{Sym: ex.freshTerm(hint, SRef, false)}
	case *types.Chan:
		return ex.freshTerm(hint, SRef, false)
	case *types.Tuple:
		tv := &TupleV{E: make([]Val, u.Len())}
		for i := 0; i < u.Len(); i++ {
			tv.E[i] = ex.freshVal(st, u.At(i).Type(), fmt.Sprintf("%s_%d", hint, i))
		}
		return tv
	case *types.TypeParam:
		return ex.freshTerm(hint, SRef, false)
	}
	return ex.freshTerm(hint, SRef, false)
}

// zeroVal builds the Go zero value of t.
func (ex *Exec) zeroVal(t types.Type) Val {
	switch u := t.Underlying().(type) {
	case *types.Basic:
		s, signed, ok := sortOfBasic(u)
		if !ok {
			return IntConst(0)
		}
		switch {
		case s == SBool:
			return TFalse
		case s == SString:
			return StrConst("")
		case isBV(s):
			return BVInt(0, bvBits(s), signed)
		case isFP(s):
			return FPConstFromBits(0, s)
		}
		return IntConst(0)
	case *types.Pointer:
		return &Ptr{Ref: IntConst(0), Root: u.Elem()}
	case *types.Struct:
		sv := &StructV{T: t, F: make([]Val, u.NumFields())}
		for i := range sv.F {
			sv.F[i] = ex.zeroVal(u.Field(i).Type())
		}
		return sv
	case *types.Interface:
		return &IfaceV{Nil: true}
	case *types.Slice:
		return &SliceV{Elem: u.Elem(), Len: BVInt(0, 64, true), Back: IntConst(0)}
	case *types.Array:
		av := &ArrayV{T: t, E: make([]Val, u.Len())}
		if u.Len() > 64 {
			return IntConst(0)
		}
		for i := range av.E {
			av.E[i] = ex.zeroVal(u.Elem())
		}
		return av
	case *types.Map:
		return &MapV{Sym: IntConst(0), K: u.Key(), V: u.Elem()}
	case *types.Signature:
		return &FuncV{Sym: IntConst(0)}
	}
	return IntConst(0)
}

func (ex *Exec) zeroTermOfSort(sort string) *Term {
	switch {
	case sort == SBool:
		return TFalse
	case sort == SString:
		return StrConst("")
	case isBV(sort):
		return BVInt(0, bvBits(sort), false)
	case isFP(sort):
		return FPConstFromBits(0, sort)
	case sort == SErr:
		return errNil
	}
	return IntConst(0)
}

var errNil = &Term{S: "err_nil", Sort: SErr}

// asTerm coerces a value to a single SMT term when it has one.
func (ex *Exec) asTerm(st *State, v Val) *Term {
	switch x := v.(type) {
	case *Term:
		return x
	case *Ptr:
		switch {
		case x.Cell != nil:
			if len(x.Path) == 0 {
				return IntConst(int64(-x.Cell.ID))
			}
			return IntConst(int64(-(x.Cell.ID*1000 + pathHash(x.Path))))
		case x.Ref != nil:
			if len(x.Path) == 0 {
				return x.Ref
			}
			return app(SRef, "fieldref_"+sanitizeName(pathKey(x.Root, x.Path)), x.Ref)
		case x.Global != nil:
			return ex.globalRef(x.Global)
		}
		return ex.freshTerm("ptr", SRef, false)
	case *IfaceV:
		if x.Nil {
			return nil
		}
		if x.Sym == nil {
			sort := SRef
			if x.Dyn != nil && implementsError(x.Dyn) {
				sort = SErr
			}
			x.Sym = ex.freshTerm("iface", sort, false)
			if st != nil {
				if sort == SErr {
					st.Assume(Not(Eq(x.Sym, errNil)))
				} else {
					st.Assume(Not(Eq(x.Sym, IntConst(0))))
				}
			}
		}
		return x.Sym
	case *FuncV:
		if x.Sym == nil {
			x.Sym = ex.freshTerm("fn", SRef, false)
		}
		return x.Sym
	case *MapV:
		return x.Sym
	case *SliceV:
		return x.Back
	}
	return nil
}

func pathHash(p []int) int {
	h := 0
	for _, i := range p {
		h = h*31 + i + 1
	}
	return h % 1000
}

func (ex *Exec) globalRef(g *ssa.Global) *Term {
	n := "glob!" + sanitizeName(g.Pkg.Pkg.Name()+"."+g.Name())
	if _, ok := ex.defs[n]; !ok {
		d := &Def{Name: n, Sort: SRef, Ord: len(ex.defOrder)}
		ex.defs[n] = d
		ex.defOrder = append(ex.defOrder, d)
	}
	return &Term{S: n, Sort: SRef}
}

func implementsError(t types.Type) bool {
	errT := types.Universe.Lookup("error").Type().Underlying().(*types.Interface)
	return types.Implements(t, errT)
}

// ifaceTerm gives the term of an interface value in the sort wanted (Err or Ref).
func (ex *Exec) ifaceTerm(st *State, v *IfaceV, sort string) *Term {
	if v.Nil {
		if sort == SErr {
			return errNil
		}
		return IntConst(0)
	}
	t := ex.asTerm(st, v)
	if t.Sort != sort {
		// an error stored in a non-error interface or vice versa: keep a stable bridge
		return app(sort, "bridge_"+sanitizeName(t.Sort)+"_"+sanitizeName(sort), t)
	}
	return t
}

// ---------------------------------------------------------------- memory

func (ex *Exec) heapArr(st *State, key, valSort string) *Term {
	if a, ok := st.heap[key]; ok {
		return a
	}
	n := "H0!" + sanitizeName(key)
	sort := "(Array Int " + valSort + ")"
	if _, ok := ex.defs[n]; !ok {
		d := &Def{Name: n, Sort: sort, Ord: len(ex.defOrder)}
		ex.defs[n] = d
		ex.defOrder = append(ex.defOrder, d)
	}
	a := &Term{S: n, Sort: sort}
	st.heap[key] = a
	return a
}

// havocHeap forgets the contents of every heap map that a callee may have written. The contents of slices
// and maps are kept unless the slice/map was handed to the callee (havocArgs) or the caller is a loop that
// stores into slices (sliceToo): code that mutates a slice it reaches only through other objects is not modelled.
func (ex *Exec) havocHeap(st *State) { ex.havocHeapX(st, false) }

// havocHeapOnly: the heap maps only; local cells (captured variables) keep their values.
func (ex *Exec) havocHeapOnly(st *State) {
	saved := map[*Cell]Val{}
	for c, v := range st.cells {
		saved[c] = v
	}
	ex.havocHeapX(st, false)
	for c, v := range saved {
		st.cells[c] = v
	}
}

func (ex *Exec) havocHeapX(st *State, sliceToo bool) {
	for k, a := range st.heap {
		if ex.immutableKeys[k] {
			continue
		}
		if !sliceToo && (strings.HasPrefix(k, "slice#") || strings.HasPrefix(k, "map#")) {
			continue
		}
		st.heap[k] = ex.declare("H!"+k, a.Sort)
	}
	// entries not yet touched start from H0!, which must not be confused with
	// the entry heap after a havoc: give every later first access a fresh array.
	ex.heapEpoch++
	st.heap["!epoch"] = &Term{S: fmt.Sprint(ex.heapEpoch), Sort: SInt}
	for c := range st.cells {
		if c.Escaped {
			st.cells[c] = ex.freshVal(st, c.T, c.Name)
		}
	}
	for g := range st.globals {
		delete(st.globals, g)
	}
}

func (ex *Exec) heapArrE(st *State, key, valSort string) *Term {
	if a, ok := st.heap[key]; ok {
		return a
	}
	if ex.immutableKeys[key] || strings.HasPrefix(key, "slice#") || strings.HasPrefix(key, "map#") {
		return ex.heapArr(st, key, valSort)
	}
	if ep, ok := st.heap["!epoch"]; ok {
		a := ex.declare("H!"+key+"!e"+ep.S, "(Array Int "+valSort+")")
		st.heap[key] = a
		return a
	}
	return ex.heapArr(st, key, valSort)
}

func (ex *Exec) loadHeap(st *State, ref *Term, root types.Type, path []int) Val {
	t := typeAtPath(root, path)
	if t == nil {
		st.unsupp = append(st.unsupp, "heap path")
		return ex.freshTerm("unk", SRef, false)
	}
	key := pathKey(root, path)
	switch u := t.Underlying().(type) {
	case *types.Struct:
		sv := &StructV{T: t, F: make([]Val, u.NumFields())}
		for i := range sv.F {
			sv.F[i] = ex.loadHeap(st, ref, root, append(append([]int(nil), path...), i))
		}
		return sv
	case *types.Slice:
		sl := &SliceV{Elem: u.Elem()}
		sl.Len = ex.sel(ex.heapArrE(st, key+"#len", bvSort(64)), ref, bvSort(64))
		sl.Len.Signed = true
		sl.Back = ex.sel(ex.heapArrE(st, key+"#back", SRef), ref, SRef)
		st.Assume(app(SBool, "bvsge", sl.Len, BVInt(0, 64, true)))
		st.Assume(app(SBool, "bvsle", sl.Len, BVInt(1<<40, 64, true)))
		return sl
	case *types.Array:
		if u.Len() <= 32 {
			av := &ArrayV{T: t, E: make([]Val, u.Len())}
			for i := range av.E {
				av.E[i] = ex.loadHeap(st, ref, root, append(append([]int(nil), path...), i))
			}
			return av
		}
		return ex.freshTerm("arr", SRef, false)
	}
	sort, signed := sortOfType(t)
	if sort == "" {
		sort = SRef
	}
	v := ex.sel(ex.heapArrE(st, key, sort), ref, sort)
	v.Signed = signed
	return ex.wrapTerm(v, t)
}

func (ex *Exec) sel(arr, idx *Term, sort string) *Term {
	// select over store with syntactically equal index folds
	if strings.HasPrefix(arr.S, "(store ") {
		// (store A i v): cheap check when the index text matches exactly at the end
		if a, i, v, ok := splitStore(arr.S); ok {
			if i == idx.S {
				return &Term{S: v, Sort: sort}
			}
			_ = a
		}
	}
	return &Term{S: "(select " + arr.S + " " + idx.S + ")", Sort: sort}
}

// splitStore splits "(store A i v)" into its three arguments.
func splitStore(s string) (a, i, v string, ok bool) {
	if !strings.HasPrefix(s, "(store ") || !strings.HasSuffix(s, ")") {
		return
	}
	body := s[7 : len(s)-1]
	parts := splitSexprs(body)
	if len(parts) != 3 {
		return
	}
	return parts[0], parts[1], parts[2], true
}

func splitSexprs(s string) []string {
	var out []string
	i := 0
	for i < len(s) {
		for i < len(s) && s[i] == ' ' {
			i++
		}
		if i >= len(s) {
			break
		}
		start := i
		if s[i] == '(' {
			depth := 0
			for i < len(s) {
				if s[i] == '"' {
					i++
					for i < len(s) && s[i] != '"' {
						i++
					}
				} else if s[i] == '(' {
					depth++
				} else if s[i] == ')' {
					depth--
					if depth == 0 {
						i++
						break
					}
				}
				i++
			}
		} else if s[i] == '"' {
			i++
			for i < len(s) {
				if s[i] == '"' {
					if i+1 < len(s) && s[i+1] == '"' {
						i += 2
						continue
					}
					i++
					break
				}
				i++
			}
		} else {
			for i < len(s) && s[i] != ' ' {
				i++
			}
		}
		out = append(out, s[start:i])
	}
	return out
}

// wrapTerm turns a scalar heap/extern term into the Val used for Go type t.
func (ex *Exec) wrapTerm(v *Term, t types.Type) Val {
	switch u := t.Underlying().(type) {
	case *types.Pointer:
		return &Ptr{Ref: v, Root: u.Elem()}
	case *types.Interface:
		return &IfaceV{Sym: v}
	case *types.Signature:
		return &FuncV{Sym: v}
	case *types.Map:
		return &MapV{Sym: v, K: u.Key(), V: u.Elem()}
	}
	return v
}

func (ex *Exec) storeHeap(st *State, ref *Term, root types.Type, path []int, v Val) {
	t := typeAtPath(root, path)
	if t == nil {
		st.unsupp = append(st.unsupp, "heap store path")
		return
	}
	key := pathKey(root, path)
	switch u := t.Underlying().(type) {
	case *types.Struct:
		sv, ok := v.(*StructV)
		for i := 0; i < u.NumFields(); i++ {
			var fv Val
			if ok {
				fv = sv.F[i]
			} else {
				fv = ex.freshVal(st, u.Field(i).Type(), "f")
			}
			ex.storeHeap(st, ref, root, append(append([]int(nil), path...), i), fv)
		}
		return
	case *types.Slice:
		sl, ok := v.(*SliceV)
		if !ok {
			sl = ex.freshVal(st, t, "sl").(*SliceV)
		}
		if sl.ArrPtr != nil {
			sl = ex.sliceToHeap(st, sl)
		}
		st.heap[key+"#len"] = store(ex.heapArrE(st, key+"#len", bvSort(64)), ref, sl.Len)
		st.heap[key+"#back"] = store(ex.heapArrE(st, key+"#back", SRef), ref, sl.Back)
		return
	case *types.Array:
		if av, ok := v.(*ArrayV); ok && u.Len() <= 32 {
			for i := range av.E {
				ex.storeHeap(st, ref, root, append(append([]int(nil), path...), i), av.E[i])
			}
		}
		return
	}
	sort, _ := sortOfType(t)
	if sort == "" {
		sort = SRef
	}
	var tv *Term
	if iv, ok := v.(*IfaceV); ok {
		tv = ex.ifaceTerm(st, iv, sort)
	} else {
		tv = ex.asTerm(st, v)
	}
	if p, ok := v.(*Ptr); ok && p.Cell != nil {
		p.Cell.Escaped = true
	}
	if tv == nil || tv.Sort != sort {
		tv = ex.freshTerm("st", sort, false)
	}
	st.heap[key] = store(ex.heapArrE(st, key, sort), ref, tv)
}

func store(arr, idx, v *Term) *Term {
	return &Term{S: "(store " + arr.S + " " + idx.S + " " + v.S + ")", Sort: arr.Sort}
}

// getPath / setPath navigate immutable value trees held in cells.
func getPath(v Val, path []int) Val {
	for _, i := range path {
		switch x := v.(type) {
		case *StructV:
			if i >= len(x.F) {
				return nil
			}
			v = x.F[i]
		case *ArrayV:
			if i >= len(x.E) {
				return nil
			}
			v = x.E[i]
		default:
			return nil
		}
	}
	return v
}

func setPath(v Val, path []int, nv Val) Val {
	if len(path) == 0 {
		return nv
	}
	switch x := v.(type) {
	case *StructV:
		c := &StructV{T: x.T, F: append([]Val(nil), x.F...)}
		if path[0] < len(c.F) {
			c.F[path[0]] = setPath(c.F[path[0]], path[1:], nv)
		}
		return c
	case *ArrayV:
		c := &ArrayV{T: x.T, E: append([]Val(nil), x.E...)}
		if path[0] < len(c.E) {
			c.E[path[0]] = setPath(c.E[path[0]], path[1:], nv)
		}
		return c
	}
	return v
}

func (ex *Exec) load(st *State, p *Ptr, t types.Type) Val {
	switch {
	case p.Cell != nil:
		v := getPath(st.cells[p.Cell], p.Path)
		if v == nil {
			st.unsupp = append(st.unsupp, "cell path "+p.String())
			return ex.freshVal(st, t, "ld")
		}
		return v
	case p.Ref != nil:
		return ex.loadHeap(st, p.Ref, p.Root, p.Path)
	case p.Global != nil:
		return ex.loadGlobal(st, p.Global, p.Path)
	case p.Sl != nil:
		return ex.sliceGet(st, p.Sl, p.Idx)
	}
	return ex.freshVal(st, t, "ld")
}

func (ex *Exec) storeTo(st *State, p *Ptr, v Val) {
	switch {
	case p.Cell != nil:
		st.cells[p.Cell] = setPath(st.cells[p.Cell], p.Path, v)
		if pv, ok := v.(*Ptr); ok && pv.Cell != nil && p.Cell.Escaped {
			pv.Cell.Escaped = true
		}
	case p.Ref != nil:
		ex.storeHeap(st, p.Ref, p.Root, p.Path, v)
	case p.Global != nil:
		if len(p.Path) == 0 {
			st.globals[p.Global] = v
		} else {
			cur := ex.loadGlobal(st, p.Global, nil)
			st.globals[p.Global] = setPath(cur, p.Path, v)
		}
	case p.Sl != nil:
		ex.sliceSet(st, p.Sl, p.Idx, v)
	}
}

func constBV(t *Term) (int64, bool) {
	var v int64
	var n int
	if _, err := fmt.Sscanf(t.S, "(_ bv%d %d)", &v, &n); err == nil {
		return v, true
	}
	return 0, false
}

func sliceKey(elem types.Type) (string, string) {
	es := elemSort(elem)
	return "slice#" + sanitizeName(es), "(Array (_ BitVec 64) " + es + ")"
}

// sliceArr returns the (Array BV64 Elem) term holding the contents of sl.
func (ex *Exec) sliceArr(st *State, sl *SliceV) *Term {
	key, as := sliceKey(sl.Elem)
	if sl.ArrPtr != nil {
		sl = ex.sliceToHeap(st, sl)
	}
	return ex.sel(ex.heapArrE(st, key, as), sl.Back, as)
}

// sliceToHeap copies a slice over a local array cell into a heap backing store
// (needed when it is handed to code that indexes it symbolically).
func (ex *Exec) sliceToHeap(st *State, sl *SliceV) *SliceV {
	key, as := sliceKey(sl.Elem)
	ex.ncell++
	back := IntConst(int64(-ex.ncell))
	arr := ex.declare("arr", as)
	var cur *Term = arr
	if av, ok := ex.load(st, sl.ArrPtr, nil).(*ArrayV); ok {
		for i := sl.Off; i < len(av.E); i++ {
			var tv *Term
			if iv, ok := av.E[i].(*IfaceV); ok {
				tv = ex.ifaceTerm(st, iv, elemSort(sl.Elem))
			} else {
				tv = ex.asTerm(st, av.E[i])
			}
			if tv != nil && tv.Sort == elemSort(sl.Elem) {
				cur = store(cur, BVInt(int64(i-sl.Off), 64, true), tv)
			}
		}
	}
	st.heap[key] = store(ex.heapArrE(st, key, as), back, cur)
	return &SliceV{Elem: sl.Elem, Len: sl.Len, Back: back, Temp: true}
}

func (ex *Exec) sliceGet(st *State, sl *SliceV, idx *Term) Val {
	if sl.ArrPtr != nil {
		if k, ok := constBV(idx); ok {
			p := &Ptr{Cell: sl.ArrPtr.Cell, Ref: sl.ArrPtr.Ref, Root: sl.ArrPtr.Root, Global: sl.ArrPtr.Global, Path: append(append([]int(nil), sl.ArrPtr.Path...), int(k)+sl.Off)}
			return ex.load(st, p, sl.Elem)
		}
		sl = ex.sliceToHeap(st, sl)
	}
	es := elemSort(sl.Elem)
	v := ex.sel(ex.sliceArr(st, sl), idx, es)
	if s, signed := sortOfType(sl.Elem); s != "" {
		v.Signed = signed
		return ex.wrapTerm(v, sl.Elem)
	}
	st.unsupp = append(st.unsupp, "slice of non-scalar elements read symbolically")
	return ex.freshVal(st, sl.Elem, "elem")
}

func (ex *Exec) sliceSet(st *State, sl *SliceV, idx *Term, v Val) {
	if sl.ArrPtr != nil {
		if k, ok := constBV(idx); ok {
			p := &Ptr{Cell: sl.ArrPtr.Cell, Ref: sl.ArrPtr.Ref, Root: sl.ArrPtr.Root, Global: sl.ArrPtr.Global, Path: append(append([]int(nil), sl.ArrPtr.Path...), int(k)+sl.Off)}
			ex.storeTo(st, p, v)
			return
		}
		st.unsupp = append(st.unsupp, "symbolic store into local array")
		return
	}
	key, as := sliceKey(sl.Elem)
	es := elemSort(sl.Elem)
	var tv *Term
	if iv, ok := v.(*IfaceV); ok {
		tv = ex.ifaceTerm(st, iv, es)
	} else {
		tv = ex.asTerm(st, v)
	}
	if tv == nil || tv.Sort != es {
		tv = ex.freshTerm("elem", es, false)
	}
	h := ex.heapArrE(st, key, as)
	st.heap[key] = store(h, sl.Back, store(ex.sel(h, sl.Back, as), idx, tv))
}

func (ex *Exec) loadGlobal(st *State, g *ssa.Global, path []int) Val {
	t := derefType(g.Type())
	if s, ok := ex.sentinels[g]; ok && len(path) == 0 {
		return &IfaceV{Sym: s}
	}
	v, ok := st.globals[g]
	if !ok {
		if c, ok2 := ex.constGlobals[g]; ok2 {
			v = c
		} else {
			v = ex.freshVal(st, t, "g_"+g.Name())
		}
		st.globals[g] = v
	}
	if len(path) > 0 {
		if r := getPath(v, path); r != nil {
			return r
		}
		return ex.freshVal(st, typeAtPath(t, path), "g")
	}
	return v
}

// havocArgs forgets the contents of the slices and maps handed to a callee that may write them.
func (ex *Exec) havocArgs(st *State, args []Val) {
	var walk func(v Val, d int)
	walk = func(v Val, d int) {
		if d > 3 {
			return
		}
		switch x := v.(type) {
		case *SliceV:
			if x.ArrPtr != nil || x.Temp {
				return
			}
			key, as := sliceKey(x.Elem)
			h := ex.heapArrE(st, key, as)
			st.heap[key] = store(h, x.Back, ex.declare("arr_havoc", as))
		case *StructV:
			for _, f := range x.F {
				walk(f, d+1)
			}
		case *IfaceV:
			walk(x.V, d+1)
		case *MapV:
			for k, a := range st.heap {
				if strings.HasPrefix(k, "map#") {
					_, inner := arraySorts(a.Sort)
					st.heap[k] = store(a, x.Sym, ex.declare("map_havoc", inner))
				}
			}
		}
	}
	for _, a := range args {
		walk(a, 0)
	}
}
