package main

import (
	"fmt"
	"go/types"
	"strings"

	"golang.org/x/tools/go/ssa"
)

// Val is a symbolic Go value.
type Val interface{}

// *Term            scalar (bool, intN, floatN, string) or opaque reference
// *Ptr             pointer
// *StructV         struct value
// *TupleV          multi-value
// *IfaceV          interface value
// *SliceV          slice value
// *FuncV           function value (closure)
// *ArrayV          fixed-size array value (constant indices only)
// *MapV            map value (functional)

type Cell struct {
	ID      int
	Name    string
	T       types.Type
	Escaped bool
}

type Ptr struct {
	Cell   *Cell       // local cell (an ssa.Alloc executed on this path)
	Ref    *Term       // symbolic object reference (sort Ref) – nil pointer is Ref "0"
	Root   types.Type  // type of the object Ref points to
	Path   []int       // field / constant-index path inside the root object
	Sl     *SliceV     // element of a slice
	Idx    *Term       // with Sl: index (BV64)
	Global *ssa.Global // package-level variable
}

type StructV struct {
	T types.Type
	F []Val
}

type ArrayV struct {
	T types.Type // *types.Array
	E []Val
}

type TupleV struct{ E []Val }

type IfaceV struct {
	Dyn types.Type // dynamic type when known on this path
	V   Val        // payload when Dyn known
	Sym *Term      // symbolic identity (sort Err for error values, Ref otherwise); nil means Go nil when Dyn==nil
	Nil bool
}

type SliceV struct {
	Elem   types.Type
	Len    *Term // BV64
	Back   *Term // identity of the backing store (Ref); contents live in the heap map "slice#<sort>"
	ArrPtr *Ptr  // slice over a local array cell (varargs): elements are read through the cell
	Off    int   // with ArrPtr: constant offset
	Temp   bool  // backing store copied from a caller-built temporary (variadic arguments): callees do not write it
}

type FuncV struct {
	Fn   *ssa.Function
	Bind []Val
	Sym  *Term // opaque function value
	Recv Val   // bound method receiver ($bound)
}

type MapV struct {
	Sym *Term // opaque identity
	K   types.Type
	V   types.Type
}

func (p *Ptr) String() string {
	switch {
	case p.Cell != nil:
		return fmt.Sprintf("&cell%d(%s)%v", p.Cell.ID, p.Cell.Name, p.Path)
	case p.Ref != nil:
		return fmt.Sprintf("&ref(%s)%v", p.Ref.S, p.Path)
	case p.Global != nil:
		return "&" + p.Global.String()
	case p.Sl != nil:
		return "&slice[" + p.Idx.S + "]"
	}
	return "&?"
}

func isErrorType(t types.Type) bool {
	if t == nil {
		return false
	}
	if n, ok := t.(*types.Named); ok && n.Obj().Pkg() == nil && n.Obj().Name() == "error" {
		return true
	}
	return false
}

// sortOfType returns the SMT sort used for scalar-like Go types, or "" when the
// type is represented structurally (struct, slice, ...).
func sortOfType(t types.Type) (string, bool) {
	switch u := t.Underlying().(type) {
	case *types.Basic:
		s, signed, ok := sortOfBasic(u)
		if ok {
			return s, signed
		}
	case *types.Pointer, *types.Map, *types.Chan, *types.Signature:
		return SRef, false
	case *types.Interface:
		if isErrorType(t) || types.Identical(t.Underlying(), types.Universe.Lookup("error").Type().Underlying()) {
			return SErr, false
		}
		return SRef, false
	}
	return "", false
}

func typeKey(t types.Type) string {
	s := types.TypeString(t, func(p *types.Package) string { return p.Name() })
	return sanitizeName(s)
}

func shortType(t types.Type) string {
	return types.TypeString(t, func(p *types.Package) string { return p.Name() })
}

func derefType(t types.Type) types.Type {
	if p, ok := t.Underlying().(*types.Pointer); ok {
		return p.Elem()
	}
	return t
}

func structOf(t types.Type) *types.Struct {
	s, _ := t.Underlying().(*types.Struct)
	return s
}

// typeAtPath walks a field/index path.
func typeAtPath(t types.Type, path []int) types.Type {
	for _, i := range path {
		switch u := t.Underlying().(type) {
		case *types.Struct:
			t = u.Field(i).Type()
		case *types.Array:
			t = u.Elem()
		default:
			return nil
		}
	}
	return t
}

func pathKey(root types.Type, path []int) string {
	var b strings.Builder
	b.WriteString(typeKey(root))
	t := root
	for _, i := range path {
		switch u := t.Underlying().(type) {
		case *types.Struct:
			b.WriteString(".")
			b.WriteString(u.Field(i).Name())
			t = u.Field(i).Type()
		case *types.Array:
			fmt.Fprintf(&b, ".%d", i)
			t = u.Elem()
		}
	}
	return b.String()
}
