package main

import (
	"fmt"
	"go/constant"
	"go/token"
	"go/types"
	"math"
	"math/big"
	"sort"
	"strings"

	"golang.org/x/tools/go/ssa"
)

type Obligation struct {
	Name   string
	Kind   string // ensures pre inv-est inv-pres frame lemma safety conv cover
	Func   string
	Inst   string
	Pos    string
	Hyps   []*Term
	Goal   *Term
	Trace  []string
	Clause string
	Vars   map[string]*Term // named entry values for replay (param name -> term)
	Unsupp []string

	// results
	Status  string // unsat sat unknown trivial
	Solver  string
	Seconds float64
	Model   map[string]string
	RawOut  string
	SMTFile string
}

type deferred struct {
	fn   Val
	args []Val
	call *ssa.CallCommon
}

type Frame struct {
	fn        *ssa.Function
	env       map[ssa.Value]Val
	defers    []deferred
	prev      *ssa.BasicBlock
	depth     int
	loopCut   map[*ssa.BasicBlock]bool
	top       bool
	args      []Val
	stack     []*ssa.Function
	recovers  bool
	unrolled  int
	curBlock  *ssa.BasicBlock
	inLoopCtx bool // the call that created this frame sits inside a loop of an enclosing frame
	entry     *State
	caller    *Frame // the frame (of this path) whose call created this one by inlining; nil for the function under proof
}

func (f *Frame) clone() *Frame {
	n := &Frame{fn: f.fn, env: make(map[ssa.Value]Val, len(f.env)), defers: append([]deferred(nil), f.defers...), prev: f.prev,
		depth: f.depth, loopCut: make(map[*ssa.BasicBlock]bool, len(f.loopCut)), top: f.top, args: f.args, stack: f.stack, entry: f.entry, unrolled: f.unrolled, curBlock: f.curBlock, inLoopCtx: f.inLoopCtx, caller: f.caller}
	for k, v := range f.env {
		n.env[k] = v
	}
	for k, v := range f.loopCut {
		n.loopCut[k] = v
	}
	return n
}

type Outcome struct {
	St    *State
	Ret   []Val
	Panic bool
	Fr    *Frame // the frame that returned (set at Return instructions): lets postconditions name described locals
}

type LoopInfo struct {
	Head   *ssa.BasicBlock
	Blocks map[*ssa.BasicBlock]bool
	Ord    int
}

type FnInfo struct {
	Loops     map[*ssa.BasicBlock]*LoopInfo
	AllocName map[string][]*ssa.Alloc
	Escaping  map[*ssa.Alloc]bool
}

type Exec struct {
	prog          *ssa.Program
	lib           *SpecLib
	prop          string
	defs          map[string]*Def
	defOrder      []*Def
	nfresh        int
	ncell         int
	heapEpoch     int
	obls          []*Obligation
	fnInfo        map[*ssa.Function]*FnInfo
	sentinels     map[*ssa.Global]*Term
	sentinelText  map[string]string
	constGlobals  map[*ssa.Global]Val
	smallHelper   map[*ssa.Function]bool
	usedLocals    map[string]bool // GOVC_DEBUG: locals (cells) that contract clauses resolve by name
	derivedFacts  []string
	inlined       map[string]bool
	havocked      map[string]bool
	usedExtern    map[string]bool
	warnings      map[string]bool
	curKey        string
	curInst       string
	callOrd       map[string]int
	paths         int
	pathBudget    int
	maxDepth      int
	errs          []string
	pkgByName     map[string]*ssa.Package
	effectsMemo   map[*ssa.Function]*Effects
	activeGhosts  []string
	frameGhosts   []string
	inlineCount   map[string]int
	exemptions    []string
	knownNames    map[string]bool
	secondAttempt bool
	guards        map[string]*guardInfo
	lockOrd       map[string]int
	entryLocks    map[string]int
	reachBackend  map[string]bool
	reachMutating map[string]bool
	maxOps        int
	callSites     map[string][]string
	topFrame      *Frame
	curSkip       *bool
	contextOnly   map[string]bool // unexported helpers whose only obligations are schema call-site assertions: checked where they are inlined
	immutableKeys map[string]bool
	steps         int
	stepBudget    int
	platformHints map[string]*Term
	intToFloat    map[string]*Term // float term -> the integer term it was converted from
}

func NewExec(prog *ssa.Program, lib *SpecLib, prop string) *Exec {
	ex := &Exec{prog: prog, lib: lib, prop: prop, defs: map[string]*Def{}, fnInfo: map[*ssa.Function]*FnInfo{},
		sentinels: map[*ssa.Global]*Term{}, sentinelText: map[string]string{}, constGlobals: map[*ssa.Global]Val{},
		inlined: map[string]bool{}, havocked: map[string]bool{}, usedExtern: map[string]bool{}, warnings: map[string]bool{},
		immutableKeys: map[string]bool{}, guards: map[string]*guardInfo{}, lockOrd: map[string]int{}, inlineCount: map[string]int{}, platformHints: map[string]*Term{}, intToFloat: map[string]*Term{}, callOrd: map[string]int{}, pathBudget: 20000, stepBudget: 3000000, maxDepth: 6, pkgByName: map[string]*ssa.Package{}, effectsMemo: map[*ssa.Function]*Effects{}}
	for _, p := range prog.AllPackages() {
		if _, dup := ex.pkgByName[p.Pkg.Name()]; !dup || strings.Contains(p.Pkg.Path(), "ARM-software") {
			ex.pkgByName[p.Pkg.Name()] = p
		}
	}
	// every ghost can be evaluated; frame obligations ("unchanged unless listed in modifies")
	// are generated only for the ghosts the property owns
	for _, n := range sortedKeys(lib.Ghosts) {
		ex.activeGhosts = append(ex.activeGhosts, n)
		if len(lib.Ghosts[n].Tags) > 0 && tagOwned(lib.Ghosts[n].Tags, prop) {
			ex.frameGhosts = append(ex.frameGhosts, n)
		}
	}
	return ex
}

func (ex *Exec) warn(f string, a ...interface{}) { ex.warnings[fmt.Sprintf(f, a...)] = true }

func funcKey(fn *ssa.Function) string {
	if o := fn.Origin(); o != nil {
		fn = o
	}
	if obj, ok := fn.Object().(*types.Func); ok && obj != nil {
		return obj.FullName()
	}
	// closures and synthetic functions
	return fn.String()
}

func isRepoFunc(fn *ssa.Function) bool {
	f := fn
	if o := f.Origin(); o != nil {
		f = o
	}
	for f.Parent() != nil {
		f = f.Parent()
	}
	if f.Pkg == nil {
		return false
	}
	return strings.HasPrefix(f.Pkg.Pkg.Path(), "github.com/ARM-software/golang-utils/")
}

func (ex *Exec) pos(p token.Pos) string {
	if !p.IsValid() {
		return ""
	}
	ps := ex.prog.Fset.Position(p)
	return fmt.Sprintf("%s:%d", strings.TrimPrefix(ps.Filename, repoRoot+"/"), ps.Line)
}

// ------------------------------------------------------------ function info

func (ex *Exec) info(fn *ssa.Function) *FnInfo {
	if fi, ok := ex.fnInfo[fn]; ok {
		return fi
	}
	fi := &FnInfo{Loops: map[*ssa.BasicBlock]*LoopInfo{}, AllocName: map[string][]*ssa.Alloc{}, Escaping: map[*ssa.Alloc]bool{}}
	ex.fnInfo[fn] = fi
	// natural loops from back edges
	var heads []*ssa.BasicBlock
	for _, b := range fn.Blocks {
		for _, s := range b.Succs {
			if s.Dominates(b) { // back edge b -> s
				li := fi.Loops[s]
				if li == nil {
					li = &LoopInfo{Head: s, Blocks: map[*ssa.BasicBlock]bool{s: true}}
					fi.Loops[s] = li
					heads = append(heads, s)
				}
				// collect blocks that reach b without passing through s
				stack := []*ssa.BasicBlock{b}
				for len(stack) > 0 {
					x := stack[len(stack)-1]
					stack = stack[:len(stack)-1]
					if li.Blocks[x] {
						continue
					}
					li.Blocks[x] = true
					for _, p := range x.Preds {
						stack = append(stack, p)
					}
				}
			}
		}
	}
	// ordinal by source position of the loop (position of the first instruction with a valid pos in the header, fallback block index)
	sort.Slice(heads, func(i, j int) bool {
		pi, pj := loopPos(heads[i]), loopPos(heads[j])
		if pi != pj {
			return pi < pj
		}
		return heads[i].Index < heads[j].Index
	})
	for i, h := range heads {
		fi.Loops[h].Ord = i + 1
	}
	for _, b := range fn.Blocks {
		for _, ins := range b.Instrs {
			if a, ok := ins.(*ssa.Alloc); ok && a.Comment != "" {
				fi.AllocName[a.Comment] = append(fi.AllocName[a.Comment], a)
			}
		}
	}
	// escaping allocs: used other than as the address of a load/store/fieldaddr/indexaddr
	for _, b := range fn.Blocks {
		for _, ins := range b.Instrs {
			a, ok := ins.(*ssa.Alloc)
			if !ok {
				continue
			}
			if allocEscapes(a, 0) {
				fi.Escaping[a] = true
			}
		}
	}
	return fi
}

func allocEscapes(v ssa.Value, depth int) bool {
	if depth > 6 {
		return true
	}
	refs := v.Referrers()
	if refs == nil {
		return false
	}
	for _, r := range *refs {
		switch x := r.(type) {
		case *ssa.Store:
			if x.Val == v {
				return true
			}
		case *ssa.UnOp:
			// load
		case *ssa.FieldAddr:
			if allocEscapes(x, depth+1) {
				return true
			}
		case *ssa.IndexAddr:
			if allocEscapes(x, depth+1) {
				return true
			}
		case *ssa.DebugRef:
		case *ssa.Slice:
			if allocEscapes(x, depth+1) {
				return true
			}
		default:
			return true
		}
	}
	return false
}

func loopPos(b *ssa.BasicBlock) token.Pos {
	// the loop's comparison / range instructions carry positions inside the for statement
	best := token.NoPos
	for _, ins := range b.Instrs {
		if p := ins.Pos(); p.IsValid() {
			if best == token.NoPos || p < best {
				best = p
			}
		}
	}
	if best == token.NoPos {
		for _, s := range b.Succs {
			for _, ins := range s.Instrs {
				if p := ins.Pos(); p.IsValid() {
					if best == token.NoPos || p < best {
						best = p
					}
				}
			}
		}
	}
	return best
}

// ------------------------------------------------------------ obligations

func (ex *Exec) addObl(st *State, kind, name string, goal *Term, pos token.Pos, clause string) *Obligation {
	o := &Obligation{Name: name, Kind: kind, Func: ex.curKey, Inst: ex.curInst, Pos: ex.pos(pos), Hyps: append([]*Term(nil), st.pc...),
		Goal: goal, Trace: append([]string(nil), st.trace...), Clause: clause, Unsupp: append([]string(nil), st.unsupp...)}
	ex.obls = append(ex.obls, o)
	return o
}

func (ex *Exec) oblName(kind string, detail string) string {
	inst := ""
	if ex.curInst != "" {
		inst = "[" + ex.curInst + "]"
	}
	return fmt.Sprintf("%s/%s%s/%s%s", ex.prop, shortKey(ex.curKey), inst, kind, detail)
}

func shortKey(k string) string {
	return strings.ReplaceAll(k, "github.com/ARM-software/golang-utils/utils/", "")
}

// ------------------------------------------------------------ execution

func (ex *Exec) callFunction(st *State, fn *ssa.Function, args []Val, parent *Frame, top bool) []Outcome {
	if len(fn.Blocks) == 0 {
		return nil
	}
	fr := &Frame{fn: fn, env: map[ssa.Value]Val{}, loopCut: map[*ssa.BasicBlock]bool{}, top: top, args: args}
	if parent != nil {
		fr.depth = parent.depth + 1
		fr.stack = append(append([]*ssa.Function(nil), parent.stack...), fn)
	} else {
		fr.stack = []*ssa.Function{fn}
	}
	for i, p := range fn.Params {
		if i < len(args) {
			fr.env[p] = args[i]
		}
	}
	return ex.runBlock(fr, st, fn.Blocks[0], 0)
}

func (ex *Exec) bindFreeVars(fr *Frame, fn *ssa.Function, bind []Val) {
	for i, fv := range fn.FreeVars {
		if i < len(bind) {
			fr.env[fv] = bind[i]
		}
	}
}

func (ex *Exec) val(fr *Frame, st *State, v ssa.Value) Val {
	switch x := v.(type) {
	case *ssa.Const:
		return ex.constVal(x)
	case *ssa.Global:
		return &Ptr{Global: x}
	case *ssa.Function:
		return &FuncV{Fn: x}
	case *ssa.Builtin:
		return &FuncV{Sym: &Term{S: "builtin_" + x.Name(), Sort: SRef}}
	}
	if r, ok := fr.env[v]; ok {
		return r
	}
	r := ex.freshVal(st, v.Type(), "undef_"+v.Name())
	fr.env[v] = r
	return r
}

func (ex *Exec) constVal(c *ssa.Const) Val {
	t := c.Type()
	if c.Value == nil {
		return ex.zeroVal(t)
	}
	b, ok := t.Underlying().(*types.Basic)
	if !ok {
		// constants of type-parameter type etc.
		return ex.zeroVal(t)
	}
	s, signed, ok := sortOfBasic(b)
	if !ok {
		return IntConst(0)
	}
	switch {
	case s == SBool:
		if constant.BoolVal(c.Value) {
			return TTrue
		}
		return TFalse
	case s == SString:
		return StrConst(constant.StringVal(c.Value))
	case isBV(s):
		bi, ok := constant.Val(constant.ToInt(c.Value)).(*big.Int)
		if !ok {
			i64, _ := constant.Int64Val(constant.ToInt(c.Value))
			bi = big.NewInt(i64)
		}
		return BVConst(bi, bvBits(s), signed)
	case isFP(s):
		f, _ := constant.Float64Val(c.Value)
		if s == SF32 {
			return FPConstFromBits(uint64(math.Float32bits(float32(f))), s)
		}
		return FPConstFromBits(math.Float64bits(f), s)
	}
	return IntConst(0)
}

// runBlock executes block b from instruction idx on; returns the outcomes of
// all paths through the rest of the function.
func (ex *Exec) runBlock(fr *Frame, st *State, b *ssa.BasicBlock, idx int) []Outcome {
	if st.dead {
		return nil
	}
	if idx == 0 {
		if li := ex.info(fr.fn).Loops[b]; li != nil {
			if stop := ex.loopHead(fr, st, b, li); stop {
				return nil
			}
		}
	}
	fr.curBlock = b
	for i := idx; i < len(b.Instrs); i++ {
		ins := b.Instrs[i]
		ex.steps++
		if ex.steps > ex.stepBudget {
			if ex.steps == ex.stepBudget+1 {
				ex.errs = append(ex.errs, fmt.Sprintf("step budget exceeded while verifying %s (path explosion)", ex.curKey))
			}
			return nil
		}
		switch x := ins.(type) {
		case *ssa.If:
			c, _ := ex.val(fr, st, x.Cond).(*Term)
			if c == nil {
				c = ex.freshTerm("cond", SBool, false)
			}
			// a condition already decided on this path (same term assumed earlier) does not fork
			if st.pcSet[c.S] {
				c = TTrue
			} else if st.pcSet[Not(c).S] {
				c = TFalse
			}
			var outs []Outcome
			if c.S != "false" {
				fr2, st2 := fr, st
				if c.S != "true" {
					fr2, st2 = fr.clone(), st.Clone()
					st2.Assume(c)
					st2.Tracef("%s: true branch", ex.pos(insPos(x, b)))
				}
				fr2.prev = b
				outs = append(outs, ex.runBlock(fr2, st2, b.Succs[0], 0)...)
			}
			if c.S != "true" {
				if c.S != "false" {
					st.Assume(Not(c))
					st.Tracef("%s: false branch", ex.pos(insPos(x, b)))
				}
				fr.prev = b
				outs = append(outs, ex.runBlock(fr, st, b.Succs[1], 0)...)
			}
			return outs
		case *ssa.Jump:
			fr.prev = b
			return ex.runBlock(fr, st, b.Succs[0], 0)
		case *ssa.Return:
			ex.paths++
			ret := make([]Val, len(x.Results))
			for k, r := range x.Results {
				ret[k] = ex.val(fr, st, r)
			}
			return []Outcome{{St: st, Ret: ret, Fr: fr}}
		case *ssa.Panic:
			ex.paths++
			st.Tracef("%s: panic", ex.pos(x.Pos()))
			if fr.fn.Recover != nil {
				// deferred functions run, then the function returns its named results
				return ex.runRecover(fr, st)
			}
			return []Outcome{{St: st, Panic: true}}
		case *ssa.RunDefers:
			outs := ex.runDefers(fr, st)
			var res []Outcome
			for _, o := range outs {
				if o.Panic {
					res = append(res, o)
					continue
				}
				fr2 := fr
				if len(outs) > 1 {
					fr2 = fr.clone()
				}
				fr2.defers = nil
				res = append(res, ex.runBlock(fr2, o.St, b, i+1)...)
			}
			return res
		case *ssa.Call:
			outs := ex.doCall(fr, st, &x.Call, x, x.Pos())
			if len(outs) == 1 && !outs[0].Panic {
				st = outs[0].St
				fr.env[x] = retVal(outs[0].Ret)
				continue
			}
			var res []Outcome
			for _, o := range outs {
				if o.Panic {
					if fr.fn.Recover != nil {
						res = append(res, ex.runRecover(fr.clone(), o.St)...)
					} else {
						res = append(res, o)
					}
					continue
				}
				fr2 := fr.clone()
				fr2.env[x] = retVal(o.Ret)
				res = append(res, ex.runBlock(fr2, o.St, b, i+1)...)
				if ex.paths > ex.pathBudget {
					ex.errs = append(ex.errs, "path budget exceeded in "+ex.curKey)
					return res
				}
			}
			return res
		case *ssa.Defer:
			d := deferred{call: &x.Call}
			if x.Call.IsInvoke() {
				d.fn = ex.val(fr, st, x.Call.Value)
			} else {
				d.fn = ex.val(fr, st, x.Call.Value)
			}
			for _, a := range x.Call.Args {
				d.args = append(d.args, ex.val(fr, st, a))
			}
			fr.defers = append(fr.defers, d)
		case *ssa.Go:
			ex.goStmt(fr, st, x)
		case *ssa.Select:
			return ex.selectStmt(fr, st, b, i, x)
		default:
			ex.step(fr, st, ins)
			if st.dead {
				return nil
			}
		}
	}
	return nil
}

func insPos(ins ssa.Instruction, b *ssa.BasicBlock) token.Pos {
	if p := ins.Pos(); p.IsValid() {
		return p
	}
	if c, ok := ins.(*ssa.If); ok {
		if p := c.Cond.Pos(); p.IsValid() {
			return p
		}
	}
	for i := len(b.Instrs) - 1; i >= 0; i-- {
		if p := b.Instrs[i].Pos(); p.IsValid() {
			return p
		}
	}
	return token.NoPos
}

func retVal(r []Val) Val {
	switch len(r) {
	case 0:
		return nil
	case 1:
		return r[0]
	}
	return &TupleV{E: r}
}

func (ex *Exec) runRecover(fr *Frame, st *State) []Outcome {
	outs := ex.runDefers(fr, st)
	var res []Outcome
	for _, o := range outs {
		fr2 := fr.clone()
		fr2.defers = nil
		if fr.fn.Recover != nil {
			res = append(res, ex.runBlock(fr2, o.St, fr.fn.Recover, 0)...)
		}
	}
	return res
}

func (ex *Exec) runDefers(fr *Frame, st *State) []Outcome {
	cur := []Outcome{{St: st}}
	for i := len(fr.defers) - 1; i >= 0; i-- {
		d := fr.defers[i]
		var next []Outcome
		for _, o := range cur {
			if o.Panic {
				next = append(next, o)
				continue
			}
			outs := ex.callValue(fr, o.St, d.call, d.fn, d.args, d.call.Pos(), nil)
			for _, oo := range outs {
				next = append(next, Outcome{St: oo.St, Panic: oo.Panic})
			}
		}
		cur = next
	}
	return cur
}

// ------------------------------------------------------------ loops

func (ex *Exec) loopInvariants(fn *ssa.Function, ord int) []*Clause {
	c := ex.lib.Contracts[funcKey(fn)]
	if c == nil {
		return nil
	}
	var out []*Clause
	for _, cl := range c.Clauses {
		if cl.Kind == "invariant" && cl.Loop == ord && tagActive(cl.Tags, ex.prop) {
			out = append(out, cl)
		}
	}
	return out
}

// loopHead implements the loop cut. Returns true when the path ends here.
func (ex *Exec) loopHead(fr *Frame, st *State, h *ssa.BasicBlock, li *LoopInfo) bool {
	invs := ex.loopInvariants(fr.fn, li.Ord)
	st.fresh = false // a new iteration starts: the context has not been consulted in it yet
	if !fr.loopCut[h] && ex.exitTestDecided(fr, st, h) {
		// the exit test is decided by constants on this path (e.g. a range over a
		// variadic slice of known length): execute the iteration, no cut needed
		fr.unrolled++
		if fr.unrolled <= 200 {
			return false
		}
		ex.errs = append(ex.errs, fmt.Sprintf("loop #%d of %s unrolled more than 200 times: needs an invariant", li.Ord, funcKey(fr.fn)))
		return true
	}
	back := fr.prev != nil && li.Blocks[fr.prev] && fr.loopCut[h]
	env := ex.localEnv(fr, st)
	if back {
		for _, cl := range invs {
			g := ex.evalBool(cl.E, env)
			ex.addObl(st, "inv-pres", ex.oblName("inv-pres", fmt.Sprintf("#%d.%d", li.Ord, cl.Ord)), g, loopPos(h), cl.Text)
		}
		ex.checkDecreases(fr, st, li, false)
		ex.paths++
		return true
	}
	for _, cl := range invs {
		g := ex.evalBool(cl.E, env)
		ex.addObl(st, "inv-est", ex.oblName("inv-est", fmt.Sprintf("#%d.%d", li.Ord, cl.Ord)), g, loopPos(h), cl.Text)
	}
	fr.loopCut[h] = true
	// havoc everything the loop may assign
	ex.havocLoop(fr, st, li)
	st.ghost["fresh"] = nil
	delete(st.ghost, "fresh")
	if _, ok := ex.lib.Ghosts["fresh"]; ok && tagActive(ex.lib.Ghosts["fresh"].Tags, ex.prop) {
		st.ghost["fresh"] = TFalse
	}
	env = ex.localEnv(fr, st)
	for _, cl := range invs {
		st.Assume(ex.evalBool(cl.E, env))
	}
	ex.checkDecreases(fr, st, li, true)
	st.Tracef("%s: loop #%d cut", ex.pos(loopPos(h)), li.Ord)
	return false
}

// exitTestDecided executes the header block on a scratch copy and reports
// whether its terminating condition folds to a constant.
func (ex *Exec) exitTestDecided(fr *Frame, st *State, h *ssa.BasicBlock) bool {
	if len(h.Instrs) == 0 {
		return false
	}
	iff, ok := h.Instrs[len(h.Instrs)-1].(*ssa.If)
	if !ok {
		return false
	}
	fr2, st2 := fr.clone(), st.Clone()
	nobl := len(ex.obls)
	for _, ins := range h.Instrs[:len(h.Instrs)-1] {
		switch ins.(type) {
		case ssa.CallInstruction, *ssa.RunDefers, *ssa.Select, *ssa.Panic, *ssa.Return:
			ex.obls = ex.obls[:nobl]
			return false
		}
		ex.step(fr2, st2, ins)
	}
	ex.obls = ex.obls[:nobl]
	c, _ := ex.val(fr2, st2, iff.Cond).(*Term)
	return c != nil && (c.S == "true" || c.S == "false")
}

func (ex *Exec) checkDecreases(fr *Frame, st *State, li *LoopInfo, entry bool) {
	// termination measures are not generated in this version
}

func (ex *Exec) havocLoop(fr *Frame, st *State, li *LoopInfo) {
	fi := ex.info(fr.fn)
	heap := false
	sliceStore := false
	ghosts := map[string]bool{}
	for b := range li.Blocks {
		for _, ins := range b.Instrs {
			switch x := ins.(type) {
			case *ssa.Store:
				root := addrRoot(x.Addr)
				if ia, ok := root.(*ssa.IndexAddr); ok {
					if _, isSlice := ia.X.Type().Underlying().(*types.Slice); isSlice {
						sliceStore = true
					}
				}
				if a, ok := root.(*ssa.Alloc); ok {
					if p, ok := fr.env[a].(*Ptr); ok && p.Cell != nil {
						nv := ex.freshVal(st, p.Cell.T, p.Cell.Name)
						st.cells[p.Cell] = nv
						if t, ok := nv.(*Term); ok && p.Cell.Name == "rangeindex" && isBV(t.Sort) {
							// the hidden index of a range loop starts at -1 and only grows (bounds for free)
							st.Assume(app(SBool, "bvsge", t, BVInt(-1, bvBits(t.Sort), true)))
							st.Assume(app(SBool, "bvsle", t, BVInt(1<<40, bvBits(t.Sort), true)))
						}
					}
				} else {
					heap = true
				}
			case *ssa.MapUpdate:
				heap = true
			case ssa.CallInstruction:
				eff := ex.callEffects(x.Common(), fr)
				if eff.Heap {
					heap = true
				}
				for g := range eff.Ghosts {
					ghosts[g] = true
				}
			}
		}
	}
	if heap || sliceStore {
		ex.havocHeapX(st, sliceStore)
		// cells whose address escapes may be written by callees
		for a := range fi.Escaping {
			if p, ok := fr.env[a].(*Ptr); ok && p.Cell != nil {
				st.cells[p.Cell] = ex.freshVal(st, p.Cell.T, p.Cell.Name)
			}
		}
	}
	for g := range ghosts {
		if gd, ok := ex.lib.Ghosts[g]; ok {
			st.ghost[g] = ex.declare("g_"+g, gd.Sort)
		}
	}
}

func addrRoot(v ssa.Value) ssa.Value {
	for {
		switch x := v.(type) {
		case *ssa.FieldAddr:
			v = x.X
		case *ssa.IndexAddr:
			if _, ok := x.X.Type().Underlying().(*types.Pointer); ok {
				v = x.X
			} else {
				return v
			}
		default:
			return v
		}
	}
}

type Effects struct {
	Heap   bool
	Ghosts map[string]bool
}

func (ex *Exec) contractEffects(c *Contract) *Effects {
	e := &Effects{Ghosts: map[string]bool{}}
	e.Heap = !c.Flags["pure"]
	for _, cl := range c.Clauses {
		if !tagActive(cl.Tags, ex.prop) {
			continue
		}
		switch cl.Kind {
		case "modifies", "havoc":
			for _, n := range cl.Names {
				if n == "heap" {
					e.Heap = true
				} else {
					e.Ghosts[n] = true
				}
			}
		case "sets":
			e.Ghosts[cl.LHS.Fun] = true
		}
	}
	return e
}

func (ex *Exec) callEffects(cc *ssa.CallCommon, fr *Frame) *Effects {
	if cc.IsInvoke() {
		key := cc.Method.FullName()
		if c := ex.activeContract(key); c != nil {
			return ex.contractEffects(c)
		}
		return &Effects{Heap: true, Ghosts: map[string]bool{}}
	}
	switch f := cc.Value.(type) {
	case *ssa.Function:
		return ex.fnEffects(f)
	case *ssa.MakeClosure:
		return ex.fnEffects(f.Fn.(*ssa.Function))
	case *ssa.Builtin:
		return &Effects{Ghosts: map[string]bool{}}
	}
	// unknown function value: may be any closure created in this function
	e := &Effects{Heap: true, Ghosts: map[string]bool{}}
	for _, g := range ex.activeGhosts {
		if !ex.lib.Ghosts[g].Stable {
			e.Ghosts[g] = true
		}
	}
	return e
}

func (ex *Exec) fnEffects(fn *ssa.Function) *Effects {
	if e, ok := ex.effectsMemo[fn]; ok {
		return e
	}
	e := &Effects{Ghosts: map[string]bool{}}
	ex.effectsMemo[fn] = e
	if c := ex.activeContract(funcKey(fn)); c != nil {
		ce := ex.contractEffects(c)
		*e = *ce
		return e
	}
	if ex.knownPure(funcKey(fn)) {
		return e
	}
	if !isRepoFunc(fn) || len(fn.Blocks) == 0 {
		e.Heap = !ex.knownPure(funcKey(fn))
		return e
	}
	for _, b := range fn.Blocks {
		for _, ins := range b.Instrs {
			switch x := ins.(type) {
			case *ssa.Store:
				if _, ok := addrRoot(x.Addr).(*ssa.Alloc); !ok {
					e.Heap = true
				}
			case *ssa.MapUpdate:
				e.Heap = true
			case ssa.CallInstruction:
				ce := ex.callEffects(x.Common(), nil)
				if ce.Heap {
					e.Heap = true
				}
				for g := range ce.Ghosts {
					e.Ghosts[g] = true
				}
			case *ssa.MakeClosure:
				ce := ex.fnEffects(x.Fn.(*ssa.Function))
				if ce.Heap {
					e.Heap = true
				}
				for g := range ce.Ghosts {
					e.Ghosts[g] = true
				}
			}
		}
	}
	return e
}

// ------------------------------------------------------------ go / select

func (ex *Exec) goStmt(fr *Frame, st *State, x *ssa.Go) {
	// goroutines are not executed: the spawned function may run at any later
	// time; its effects on shared state are not modelled (see DESIGN §2.3).
	st.Tracef("%s: go (not executed)", ex.pos(x.Pos()))
	if sc := x.Call.StaticCallee(); sc != nil {
		// the goroutine is not executed, but contracts may constrain WHEN it is started: assert @go:<callee>
		var args []Val
		for _, a := range x.Call.Args {
			args = append(args, ex.val(fr, st, a))
		}
		ns, ts := fnParamInfo(sc)
		ex.checkAsserts(fr, st, "go:"+funcKey(sc), ns, ts, args, x.Pos())
	}
	ex.warn("go statement in %s not executed", fr.fn.String())
	for _, a := range x.Call.Args {
		if p, ok := ex.val(fr, st, a).(*Ptr); ok && p.Cell != nil {
			p.Cell.Escaped = true
		}
	}
	if mc, ok := x.Call.Value.(*ssa.MakeClosure); ok {
		for _, bnd := range mc.Bindings {
			if p, ok := ex.val(fr, st, bnd).(*Ptr); ok && p.Cell != nil {
				p.Cell.Escaped = true
			}
		}
	}
}

func (ex *Exec) selectStmt(fr *Frame, st *State, b *ssa.BasicBlock, i int, x *ssa.Select) []Outcome {
	// nondeterministic choice among the cases (and default when non blocking)
	n := len(x.States)
	var res []Outcome
	total := n
	if !x.Blocking {
		total = n + 1
	}
	for k := 0; k < total; k++ {
		fr2, st2 := fr.clone(), st.Clone()
		idx := k
		if k == n {
			idx = -1
		}
		tv := &TupleV{}
		tv.E = append(tv.E, BVInt(int64(idx), 64, true))
		tv.E = append(tv.E, ex.freshTerm("recvok", SBool, false))
		for si, s := range x.States {
			if s.Dir == types.RecvOnly {
				et := s.Chan.Type().Underlying().(*types.Chan).Elem()
				rv := ex.freshVal(st2, et, "recv")
				tv.E = append(tv.E, rv)
				if si == idx {
					ex.noteRecv(st2, et, rv)
				}
			}
		}
		fr2.env[x] = tv
		st2.Tracef("%s: select case %d", ex.pos(x.Pos()), idx)
		res = append(res, ex.runBlock(fr2, st2, b, i+1)...)
	}
	return res
}
