package main

import (
	"fmt"
	"go/token"
	"go/types"
	"math/big"
)

func pow2Real(n int) string {
	return new(big.Int).Lsh(big.NewInt(1), uint(n)).String() + ".0"
}

// fpLit builds an FP literal of the given sort from an exactly representable real.
func fpLit(sort, real string, neg bool) *Term {
	e, s := fpDims(sort)
	if neg {
		real = "(- " + real + ")"
	}
	return &Term{S: fmt.Sprintf("((_ to_fp %d %d) RNE %s)", e, s, real), Sort: sort}
}

// floatInIntRange: f (of FP sort) truncates to a value representable in an
// n-bit signed/unsigned integer. NaN and infinities are outside.
func floatInIntRange(f *Term, n int, signed bool) *Term {
	_, sig := fpDims(f.Sort)
	if signed {
		hi := app(SBool, "fp.lt", f, fpLit(f.Sort, pow2Real(n-1), false))
		var lo *Term
		if n-1 >= sig {
			// no float lies strictly between -2^(n-1)-1 and -2^(n-1)
			lo = app(SBool, "fp.geq", f, fpLit(f.Sort, pow2Real(n-1), true))
		} else {
			v := new(big.Int).Lsh(big.NewInt(1), uint(n-1))
			v.Add(v, big.NewInt(1))
			lo = app(SBool, "fp.gt", f, fpLit(f.Sort, v.String()+".0", true))
		}
		return And(lo, hi)
	}
	hi := app(SBool, "fp.lt", f, fpLit(f.Sort, pow2Real(n), false))
	lo := app(SBool, "fp.gt", f, fpLit(f.Sort, "1.0", true))
	return And(lo, hi)
}

func (ex *Exec) convert(fr *Frame, st *State, v Val, from, to types.Type, pos token.Pos) Val {
	fb, ok1 := from.Underlying().(*types.Basic)
	tb, ok2 := to.Underlying().(*types.Basic)
	x, isT := v.(*Term)
	if ok1 && ok2 && isT {
		fs, fsigned, okf := sortOfBasic(fb)
		ts, tsigned, okt := sortOfBasic(tb)
		if okf && okt {
			switch {
			case isBV(fs) && isBV(ts):
				src := &Term{S: x.S, Sort: x.Sort, Signed: fsigned}
				return ex.define("cv", Extend(src, bvBits(ts), tsigned))
			case isBV(fs) && isFP(ts):
				e, s := fpDims(ts)
				op := "to_fp"
				if !fsigned {
					op = "to_fp_unsigned"
				}
				r := ex.define("cv", &Term{S: fmt.Sprintf("((_ %s %d %d) RNE %s)", op, e, s, x.S), Sort: ts})
				ex.intToFloat[r.S] = &Term{S: x.S, Sort: x.Sort, Signed: fsigned}
				return r
			case isFP(fs) && isFP(ts):
				if fs == ts {
					return x
				}
				e, s := fpDims(ts)
				return ex.define("cv", &Term{S: fmt.Sprintf("((_ to_fp %d %d) RNE %s)", e, s, x.S), Sort: ts})
			case isFP(fs) && isBV(ts):
				n := bvBits(ts)
				in := floatInIntRange(x, n, tsigned)
				op := "fp.to_sbv"
				if !tsigned {
					op = "fp.to_ubv"
				}
				conv := &Term{S: fmt.Sprintf("((_ %s %d) RTZ %s)", op, n, x.S), Sort: ts, Signed: tsigned}
				// Go leaves the result of an out-of-range conversion implementation
				// defined: it is an unconstrained value here.
				unspec := ex.freshTerm("unspecified_conv", ts, tsigned)
				ex.platformHints[unspec.S] = Eq(unspec, amd64Conv(x, n, tsigned))
				if c := ex.lib.Contracts[ex.curKey]; c != nil && c.Flags["strict-conversions"] && fr.depth == 0 {
					ex.addObl(st, "conv", ex.oblName("conv", "#"+ex.pos(pos)), in, pos, "float→int conversion operand within the target range")
				}
				r := Ite(in, conv, unspec)
				r.Signed = tsigned
				return ex.define("cv", r)
			case fs == SString && ts == SString:
				return x
			case isBV(fs) && ts == SString:
				// string(r): one byte for r < 128 (SMT str.from_code); other runes are UTF-8 encoded (uninterpreted)
				if k, ok := constBV(x); ok && k >= 0 && k < 128 {
					return StrConst(string(rune(k)))
				}
				ex.declareUF("rune_to_string", []string{bvSort(64)}, SString)
				r64 := Extend(&Term{S: x.S, Sort: x.Sort, Signed: fsigned}, 64, true)
				return ex.define("runestr", Ite(And(app(SBool, "bvsge", r64, BVInt(0, 64, true)), app(SBool, "bvslt", r64, BVInt(128, 64, true))),
					&Term{S: "(str.from_code (bv2nat " + r64.S + "))", Sort: SString}, app(SString, "rune_to_string", r64)))
			}
		}
	}
	// string <-> []byte / []rune
	if isT && x.Sort == SString {
		if sl, ok := to.Underlying().(*types.Slice); ok {
			r := ex.freshVal(st, to, "bytes").(*SliceV)
			if b, ok := sl.Elem().Underlying().(*types.Basic); ok && b.Kind() == types.Uint8 {
				ex.declareUF("slen", []string{SString}, bvSort(64))
				st.Assume(Eq(r.Len, app(bvSort(64), "slen", x)))
				ex.declareUF("bytes_of", []string{SString}, "(Array (_ BitVec 64) (_ BitVec 8))")
				key, as := sliceKey(sl.Elem())
				st.heap[key] = store(ex.heapArrE(st, key, as), r.Back, app(as, "bytes_of", x))
			}
			return r
		}
	}
	if sl, ok := v.(*SliceV); ok {
		if b, ok := to.Underlying().(*types.Basic); ok && b.Kind() == types.String {
			ex.declareUF("string_of", []string{"(Array (_ BitVec 64) (_ BitVec 8))", bvSort(64)}, SString)
			if e, ok := sl.Elem.Underlying().(*types.Basic); ok && e.Kind() == types.Uint8 {
				return app(SString, "string_of", ex.sliceArr(st, sl), sl.Len)
			}
		}
	}
	if types.Identical(from.Underlying(), to.Underlying()) {
		return v
	}
	// pointer conversions and the like keep the value
	switch v.(type) {
	case *Ptr, *StructV, *FuncV:
		return v
	}
	st.unsupp = append(st.unsupp, fmt.Sprintf("convert %s -> %s", from, to))
	return ex.freshVal(st, to, "conv")
}

// amd64Conv is what the Go compiler's amd64 code does for float→int
// conversions, including out-of-range operands (CVTTSD2SQ / CVTTSD2SL and the
// uint64 split at 2^63). It is used ONLY to steer counterexample models towards
// inputs that replay on this platform; proofs never rely on it.
func amd64Conv(f *Term, n int, signed bool) *Term {
	cvt := func(x *Term, w int) *Term {
		in := floatInIntRange(x, w, true)
		indef := BVConst(new(big.Int).Lsh(big.NewInt(1), uint(w-1)), w, true)
		return Ite(in, &Term{S: fmt.Sprintf("((_ fp.to_sbv %d) RTZ %s)", w, x.S), Sort: bvSort(w)}, indef)
	}
	ext := func(t *Term, w int) *Term {
		if bvBits(t.Sort) == w {
			return t
		}
		return &Term{S: fmt.Sprintf("((_ extract %d 0) %s)", w-1, t.S), Sort: bvSort(w)}
	}
	switch {
	case signed && n == 64:
		return cvt(f, 64)
	case signed:
		return ext(cvt(f, 32), n)
	case n == 64:
		p63 := fpLit(f.Sort, pow2Real(63), false)
		sub := &Term{S: fmt.Sprintf("(fp.sub RNE %s %s)", f.S, p63.S), Sort: f.Sort}
		hi := BVConst(new(big.Int).Lsh(big.NewInt(1), 63), 64, false)
		return Ite(app(SBool, "fp.lt", f, p63), cvt(f, 64), app(bvSort(64), "bvor", cvt(sub, 64), hi))
	case n == 32:
		return ext(cvt(f, 64), 32)
	default:
		return ext(cvt(f, 32), n)
	}
}
