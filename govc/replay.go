package main

import (
	"bytes"
	"context"
	"encoding/json"
	"fmt"
	"math/big"
	"os"
	"os/exec"
	"path/filepath"
	"strings"
	"time"
)

type ReplayDoc struct {
	Property   string            `json:"property"`
	Obligation string            `json:"obligation"`
	Kind       string            `json:"kind"`
	Function   string            `json:"function"`
	Inst       string            `json:"instantiation,omitempty"`
	Pos        string            `json:"pos"`
	Clause     string            `json:"clause"`
	Trace      []string          `json:"path_trace"`
	SMTFile    string            `json:"smt_file"`
	Solver     string            `json:"solver"`
	Status     string            `json:"solver_status"`
	SolverOut  string            `json:"solver_output"`
	Model      map[string]string `json:"model,omitempty"`
	Driver     string            `json:"replay_driver,omitempty"`
	Test       string            `json:"replay_test,omitempty"`
	Cmd        string            `json:"replay_cmd,omitempty"`
	Outcome    string            `json:"outcome"` // reproduced | not-reproduced | not-run
	Output     string            `json:"replay_output,omitempty"`
	Note       string            `json:"note,omitempty"`
}

func (ex *Exec) buildReplay(o *Obligation, cfg *PropConfig, noReplay bool) *ReplayDoc {
	rp := &ReplayDoc{Property: ex.prop, Obligation: o.Name, Kind: o.Kind, Function: shortKey(o.Func), Inst: o.Inst, Pos: o.Pos, Clause: o.Clause,
		Trace: o.Trace, SMTFile: o.SMTFile, Solver: o.Solver, Status: o.Status, SolverOut: truncate(o.RawOut, 4000), Model: o.Model, Outcome: "not-run"}
	if o.Status != "sat" {
		rp.Note = "the solvers returned no model (" + o.Status + "): the obligation is reported as failed without a failing input"
	}
	driver := ""
	for k, d := range cfg.Replay {
		if strings.Contains(o.Name, k) {
			if len(k) > len(driver) || driver == "" {
				driver = d
			}
		}
	}
	if driver == "" || noReplay {
		if rp.Note == "" {
			rp.Note = "no replay driver for this obligation class"
		}
		return rp
	}
	rp.Driver = driver
	gen, ok := replayDrivers[driver]
	if !ok {
		rp.Note = "unknown replay driver " + driver
		return rp
	}
	pkgDir, src, runPat, race, err := gen(ex, o)
	if err != nil {
		rp.Note = "replay not generated: " + err.Error()
		return rp
	}
	rp.Test = src
	out, cmdline, err := runOverlayTest(pkgDir, src, runPat, race)
	rp.Cmd = cmdline
	rp.Output = truncate(out, 6000)
	switch {
	case strings.Contains(out, "WARNING: DATA RACE"):
		rp.Outcome = "reproduced"
	case strings.Contains(out, "REPRODUCED") && !strings.Contains(out, "NOT-REPRODUCED"):
		rp.Outcome = "reproduced"
	case err == nil || strings.Contains(out, "NOT-REPRODUCED"):
		rp.Outcome = "not-reproduced"
	default:
		rp.Outcome = "not-run"
		rp.Note = "replay test did not run to a verdict: " + err.Error()
	}
	return rp
}

// runOverlayTest injects src as an in-package test file through -overlay and
// runs it against the real code; nothing is written into /repo.
func runOverlayTest(pkgRel, src, runPat string, race bool) (string, string, error) {
	tmp, err := os.MkdirTemp("", "govc-replay-")
	if err != nil {
		return "", "", err
	}
	defer os.RemoveAll(tmp)
	testFile := filepath.Join(tmp, "zz_verif_replay_test.go")
	if err := os.WriteFile(testFile, []byte(src), 0o644); err != nil {
		return "", "", err
	}
	ov := map[string]map[string]string{"Replace": {filepath.Join(repoUtils, pkgRel, "zz_verif_replay_test.go"): testFile}}
	ovData, _ := json.Marshal(ov)
	ovFile := filepath.Join(tmp, "overlay.json")
	os.WriteFile(ovFile, ovData, 0o644)
	args := []string{"test", "-overlay", ovFile, "-vet=off", "-count=1", "-timeout", "60s", "-run", runPat}
	if race {
		args = append(args, "-race")
	}
	args = append(args, "./"+pkgRel+"/")
	ctx, cancel := context.WithTimeout(context.Background(), 5*time.Minute)
	defer cancel()
	cmd := exec.CommandContext(ctx, "go", args...)
	cmd.Dir = repoUtils
	cmd.Env = append(os.Environ(), "GOFLAGS=-mod=mod", "GOPROXY=off")
	var out bytes.Buffer
	cmd.Stdout = &out
	cmd.Stderr = &out
	err = cmd.Run()
	return out.String(), "cd /repo/utils && GOFLAGS=-mod=mod GOPROXY=off go " + strings.Join(args[:len(args)-1], " ") + " ./" + pkgRel + "/  (test file injected by overlay)", err
}

type replayGen func(ex *Exec, o *Obligation) (pkgRel, src, runPat string, race bool, err error)

var replayDrivers = map[string]replayGen{}

// ---------------------------------------------------------------- model values

// modelBV parses "#x..", "#b..", "(_ bvN W)" into an unsigned big.Int and width.
func modelBV(s string) (*big.Int, int, bool) {
	s = strings.TrimSpace(s)
	switch {
	case strings.HasPrefix(s, "#x"):
		v, ok := new(big.Int).SetString(s[2:], 16)
		return v, 4 * (len(s) - 2), ok
	case strings.HasPrefix(s, "#b"):
		v, ok := new(big.Int).SetString(s[2:], 2)
		return v, len(s) - 2, ok
	case strings.HasPrefix(s, "(_ bv"):
		var v string
		var w int
		if _, err := fmt.Sscanf(s, "(_ bv%s %d)", &v, &w); err == nil {
			bi, ok := new(big.Int).SetString(v, 10)
			return bi, w, ok
		}
	}
	return nil, 0, false
}

// modelFPBits parses an FP model value into its IEEE bit pattern.
func modelFPBits(s string, e, sg int) (uint64, bool) {
	s = strings.TrimSpace(s)
	total := e + sg
	expAll := (uint64(1)<<uint(e) - 1) << uint(sg-1)
	switch {
	case strings.HasPrefix(s, "(fp "):
		parts := splitSexprs(s[4 : len(s)-1])
		if len(parts) != 3 {
			return 0, false
		}
		var bits uint64
		for _, p := range parts {
			v, w, ok := modelBV(p)
			if !ok {
				return 0, false
			}
			bits = bits<<uint(w) | v.Uint64()
		}
		return bits, true
	case strings.HasPrefix(s, "(_ +oo"):
		return expAll, true
	case strings.HasPrefix(s, "(_ -oo"):
		return expAll | 1<<uint(total-1), true
	case strings.HasPrefix(s, "(_ NaN"):
		return expAll | 1<<uint(sg-2), true
	case strings.HasPrefix(s, "(_ +zero"):
		return 0, true
	case strings.HasPrefix(s, "(_ -zero"):
		return 1 << uint(total-1), true
	}
	return 0, false
}

// goLiteral renders a model value as a Go expression of the named basic type.
func goLiteral(val, goType string) (string, error) {
	switch goType {
	case "float64":
		b, ok := modelFPBits(val, 11, 53)
		if !ok {
			return "", fmt.Errorf("cannot parse float64 model value %q", val)
		}
		return fmt.Sprintf("math.Float64frombits(0x%x)", b), nil
	case "float32":
		b, ok := modelFPBits(val, 8, 24)
		if !ok {
			return "", fmt.Errorf("cannot parse float32 model value %q", val)
		}
		return fmt.Sprintf("math.Float32frombits(0x%x)", b), nil
	case "bool":
		return val, nil
	case "string":
		return smtStringToGo(val), nil
	}
	v, w, ok := modelBV(val)
	if !ok {
		return "", fmt.Errorf("cannot parse integer model value %q", val)
	}
	if !strings.HasPrefix(goType, "u") {
		// signed: two's complement
		if v.Bit(w-1) == 1 {
			v = new(big.Int).Sub(v, new(big.Int).Lsh(big.NewInt(1), uint(w)))
		}
	}
	return v.String(), nil
}

func smtStringToGo(s string) string {
	s = strings.TrimSpace(s)
	if len(s) >= 2 && s[0] == '"' {
		s = s[1 : len(s)-1]
	}
	s = strings.ReplaceAll(s, "\"\"", "\"")
	var b strings.Builder
	b.WriteByte('"')
	for i := 0; i < len(s); i++ {
		if strings.HasPrefix(s[i:], "\\u{") {
			j := strings.Index(s[i:], "}")
			var v int
			fmt.Sscanf(s[i+3:i+j], "%x", &v)
			fmt.Fprintf(&b, "\\x%02x", v&0xff)
			i += j
			continue
		}
		c := s[i]
		if c == '"' || c == '\\' {
			b.WriteByte('\\')
			b.WriteByte(c)
		} else if c < 0x20 || c >= 0x7f {
			fmt.Fprintf(&b, "\\x%02x", c)
		} else {
			b.WriteByte(c)
		}
	}
	b.WriteByte('"')
	return b.String()
}
