package main

import (
	"go/ast"
	"go/token"
	"fmt"
	"go/types"
	"sort"
	"strings"

	"golang.org/x/tools/go/ssa"
	"golang.org/x/tools/go/ssa/ssautil"
)

type FuncReport struct {
	Key         string `json:"function"`
	Inst        string `json:"instantiation,omitempty"`
	Paths       int    `json:"paths"`
	Obligations int    `json:"obligations"`
	Pos         string `json:"pos"`
}

// instName renders the type arguments of an instance the way contracts name them.
func instName(fn *ssa.Function) string {
	if fn.Origin() == nil {
		return ""
	}
	var parts []string
	for _, t := range fn.TypeArgs() {
		s := shortType(t)
		if n, ok := t.(*types.Named); ok && strings.HasPrefix(n.Obj().Name(), "verifNamed") {
			s = "~" + shortType(n.Underlying())
		}
		parts = append(parts, s)
	}
	return strings.Join(parts, ",")
}

// targets returns the functions to verify for the active property.
func (ex *Exec) targets(only string) []*ssa.Function {
	all := ssautil.AllFunctions(ex.prog)
	var fns []*ssa.Function
	for fn := range all {
		if len(fn.Blocks) == 0 {
			continue
		}
		if fn.Origin() == nil && fn.TypeParams().Len() > 0 {
			continue // generic template: verified through its instances
		}
		if fn.Synthetic != "" && fn.Origin() == nil {
			continue
		}
		if hasTypeParamArg(fn) {
			continue // instance created for the body of a generic template
		}
		key := funcKey(fn)
		c := ex.activeContract(key)
		if c == nil || c.Extern {
			continue
		}
		if !ex.contractHasPropClauses(c) {
			continue
		}
		if only != "" && !strings.Contains(key, only) {
			continue
		}
		fns = append(fns, fn)
	}
	sort.Slice(fns, func(i, j int) bool {
		a, b := funcKey(fns[i])+"["+instName(fns[i])+"]", funcKey(fns[j])+"["+instName(fns[j])+"]"
		return a < b
	})
	// de-duplicate instances with identical names
	var out []*ssa.Function
	seen := map[string]bool{}
	for _, f := range fns {
		k := funcKey(f) + "[" + instName(f) + "]"
		if seen[k] {
			continue
		}
		seen[k] = true
		out = append(out, f)
	}
	return ex.dropContextOnly(out, all)
}

// dropContextOnly: an UNEXPORTED function whose only obligations under this property are call-site assertions that a
// transparent schema gave it (it has no contract of its own), that no interface of its package can dispatch to, and that
// is referred to only by functions which are themselves verified under this property, is not verified on its own: it is
// executed - assertions included - in the context of each of those callers (a few statements extracted into a new helper
// keep being checked where they were, with what the caller knows). If such a helper cannot be executed in a caller
// (size, depth), the run is undecided (engine error), never silently weaker.
func (ex *Exec) dropContextOnly(fns []*ssa.Function, all map[*ssa.Function]bool) []*ssa.Function {
	target := map[string]bool{}
	for _, f := range fns {
		target[funcKey(f)] = true
	}
	refs := map[types.Object][]*ssa.Function{}
	for g := range all {
		if len(g.Blocks) == 0 || !isRepoFunc(g) || isBoundMethodWrapper(g) {
			continue
		}
		top := g
		for top.Parent() != nil {
			top = top.Parent()
		}
		var ops []*ssa.Value
		for _, b := range g.Blocks {
			for _, in := range b.Instrs {
				ops = in.Operands(ops[:0])
				for _, op := range ops {
					if op == nil || *op == nil {
						continue
					}
					if f2, ok := (*op).(*ssa.Function); ok && f2.Object() != nil {
						refs[f2.Object()] = append(refs[f2.Object()], top)
					}
				}
			}
		}
	}
	ex.contextOnly = map[string]bool{}
	var out []*ssa.Function
	for _, f := range fns {
		key := funcKey(f)
		c := ex.lib.Contracts[key]
		drop := c != nil && c.Synth && c.Flags["inline"] && f.Object() != nil && !ast.IsExported(f.Name()) && f.Parent() == nil && f.Origin() == nil
		if drop {
			for _, cl := range c.Clauses {
				if !tagActive(cl.Tags, ex.prop) || cl.Kind == "params" || cl.Kind == "local" || cl.Kind == "exempt" {
					continue
				}
				if !cl.Schema || (cl.Kind != "assert" && cl.Kind != "requires") {
					drop = false
				}
			}
		}
		if drop && f.Pkg != nil {
			for _, m := range f.Pkg.Members {
				if tm, ok := m.(*ssa.Type); ok {
					if it, ok := tm.Type().Underlying().(*types.Interface); ok {
						for i := 0; i < it.NumMethods(); i++ {
							if it.Method(i).Name() == f.Name() {
								drop = false
							}
						}
					}
				}
			}
		}
		if drop {
			n := 0
			for _, b := range f.Blocks {
				n += len(b.Instrs)
			}
			rs := refs[f.Object()]
			if n > 500 || len(rs) == 0 {
				drop = false
			}
			for _, r := range rs {
				if r == f || !target[funcKey(r)] {
					drop = false
				}
			}
		}
		if drop {
			ex.contextOnly[key] = true
			ex.usedExtern["helper "+shortKey(key)+" (unexported, schema call-site assertions only) is checked in the context of its callers, not on its own"] = true
			continue
		}
		out = append(out, f)
	}
	return out
}

func hasTypeParamArg(fn *ssa.Function) bool {
	for _, t := range fn.TypeArgs() {
		if _, ok := t.(*types.TypeParam); ok {
			return true
		}
	}
	return false
}

// a contract is proved under a property only if it has at least one clause
// (untagged or tagged with it) to prove.
func (ex *Exec) contractHasPropClauses(c *Contract) bool {
	if len(c.Tags) > 0 {
		return tagOwned(c.Tags, ex.prop)
	}
	for _, cl := range c.Clauses {
		if cl.Kind != "requires" && cl.Kind != "params" && cl.Kind != "local" && tagOwned(cl.Tags, ex.prop) && !cl.Assumed {
			return true
		}
	}
	return false
}

func (ex *Exec) initState() *State {
	st := NewState()
	for _, n := range ex.activeGhosts {
		g := ex.lib.Ghosts[n]
		if g.Init != "" {
			st.ghost[n] = &Term{S: g.Init, Sort: g.Sort}
		} else {
			st.ghost[n] = ex.ghostVal(st, n)
		}
	}
	return st
}

// localEnv exposes parameters (entry values under name0 and old()), named
// results and named locals (current values) to invariants.
func (ex *Exec) localEnv(fr *Frame, st *State) *CEnv {
	env := &CEnv{ex: ex, st: st, old: fr.entry, vars: map[string]TV{}, fn: fr.fn}
	fi := ex.info(fr.fn)
	for name, allocs := range fi.AllocName {
		if len(allocs) == 0 {
			continue
		}
		// the first alloc of that name executed on this path
		for i, a := range allocs {
			if p, ok := fr.env[a].(*Ptr); ok {
				n := name
				if i > 0 {
					n = fmt.Sprintf("%s_%d", name, i+1)
				}
				if _, dup := env.vars[n]; !dup {
					env.vars[n] = TV{&lazyCell{p}, derefType(a.Type())}
				}
			}
		}
	}
	// locals described in the contract ("local x = result of f"): found by what they hold when the name is gone
	if c := ex.lib.Contracts[funcKey(fr.fn)]; c != nil {
		for _, cl := range c.Clauses {
			if cl.Kind != "local" || !tagActive(cl.Tags, ex.prop) {
				continue
			}
			a := findLocalByDesc(fr.fn, cl.Text)
			if _, named := env.vars[cl.Names[0]]; named {
				// the name still exists: the description must agree with it (so that descriptions do not rot)
				if a == nil || a.Comment != cl.Names[0] {
					ex.cerr("local %s: the description %q does not designate that variable", cl.Names[0], cl.Text)
				}
				continue
			}
			if a == nil {
				continue // unresolved: the clauses that use the name report it
			}
			if p, ok := fr.env[a].(*Ptr); ok {
				env.vars[cl.Names[0]] = TV{&lazyCell{p}, derefType(a.Type())}
			}
		}
	}
	for i, p := range fr.fn.Params {
		if i < len(fr.args) {
			if _, clash := env.vars[fmt.Sprintf("arg%d", i)]; !clash {
				env.vars[fmt.Sprintf("arg%d", i)] = TV{fr.args[i], p.Type()}
			}
			env.vars[p.Name()+"0"] = TV{fr.args[i], p.Type()}
			if _, ok := env.vars[p.Name()]; !ok {
				env.vars[p.Name()] = TV{fr.args[i], p.Type()}
			}
		}
	}
	{
		var cur []string
		for _, p := range fr.fn.Params {
			cur = append(cur, p.Name())
		}
		for old, i := range ex.lib.Contracts[funcKey(fr.fn)].paramAliases(cur) {
			if v, ok := env.vars[cur[i]]; ok {
				if _, clash := env.vars[old]; !clash {
					env.vars[old] = v
					env.vars[old+"0"] = TV{fr.args[i], fr.fn.Params[i].Type()}
				}
			}
		}
	}
	for i, fv := range fr.fn.FreeVars {
		_ = i
		if p, ok := fr.env[fv].(*Ptr); ok {
			env.vars[fv.Name()] = TV{&lazyCell{p}, derefType(fv.Type())}
		}
	}
	return env
}

// verifyAll verifies fn once, or once per literal of a "cases" clause.
func (ex *Exec) verifyAll(fn *ssa.Function) []*FuncReport {
	c := ex.activeContract(funcKey(fn))
	for _, cl := range c.Clauses {
		if cl.Kind == "cases" && tagActive(cl.Tags, ex.prop) {
			var out []*FuncReport
			for _, lit := range cl.Cases {
				out = append(out, ex.verifyFunc(fn, cl.Names[0], lit))
			}
			return out
		}
	}
	return []*FuncReport{ex.verifyFunc(fn, "", nil)}
}

// verifyFunc generates the obligations of one function under contract.
func (ex *Exec) verifyFunc(fn *ssa.Function, caseParam string, caseLit Expr) *FuncReport {
	key := funcKey(fn)
	c := ex.activeContract(key)
	ex.curKey = key
	ex.curInst = instName(fn)
	if caseLit != nil {
		ex.curInst = caseParam + "=" + caseLit.String()
	}
	before := len(ex.obls)
	ex.paths = 0
	ex.steps = 0
	rep := &FuncReport{Key: shortKey(key), Inst: ex.curInst, Pos: ex.pos(fn.Pos())}

	st := ex.initState()
	var args []Val
	env := &CEnv{ex: ex, st: st, vars: map[string]TV{}, fn: fn}
	for _, p := range fn.Params {
		v := ex.freshVal(st, p.Type(), "in_"+p.Name())
		if caseLit != nil && p.Name() == caseParam {
			want, _ := sortOfType(p.Type())
			v = ex.eval(caseLit, &CEnv{ex: ex, st: st, vars: map[string]TV{}, fn: fn}, want).V
		}
		args = append(args, v)
		env.vars[p.Name()] = TV{v, p.Type()}
		env.vars[fmt.Sprintf("arg%d", len(args)-1)] = TV{v, p.Type()} // positional alias: survives a renamed parameter
	}
	if fn.Signature.Recv() != nil && len(args) > 0 {
		env.vars["this"] = TV{args[0], fn.Params[0].Type()}
	}
	{
		var cur []string
		for _, p := range fn.Params {
			cur = append(cur, p.Name())
		}
		for old, i := range c.paramAliases(cur) {
			env.vars[old] = TV{args[i], fn.Params[i].Type()}
		}
	}
	// a closure under contract: its captured variables hold arbitrary values of their types on entry
	freeCells := map[*ssa.FreeVar]*Ptr{}
	for _, fv := range fn.FreeVars {
		if pt, ok := fv.Type().Underlying().(*types.Pointer); ok {
			ex.ncell++
			cell := &Cell{ID: ex.ncell, Name: fv.Name(), T: pt.Elem()}
			// a captured PARAMETER of the enclosing function that nobody assigns (the only store is the spill of the
			// parameter itself, every closure only reads it) keeps its value across calls
			cell.Escaped = !capturedReadOnlyParam(fn, fv)
			v := ex.freshVal(st, pt.Elem(), "cap_"+fv.Name())
			st.cells[cell] = v
			freeCells[fv] = &Ptr{Cell: cell}
			env.vars[fv.Name()] = TV{v, pt.Elem()}
		}
	}
	// receivers and pointer parameters of the function under proof are non-nil only if the contract says so
	for _, cl := range c.Clauses {
		if cl.Kind == "requires" && tagActive(cl.Tags, ex.prop) {
			st.Assume(ex.evalBool(cl.E, env))
		}
	}
	ex.entryLocks = nil
	ex.initLocks(st, fn, args)
	entry := st.Clone()
	st.Tracef("entry %s", shortKey(key))

	fr := &Frame{fn: fn, env: map[ssa.Value]Val{}, loopCut: map[*ssa.BasicBlock]bool{}, top: true, args: args, stack: []*ssa.Function{fn}, entry: entry}
	for i, p := range fn.Params {
		fr.env[p] = args[i]
	}
	for fv, p := range freeCells {
		fr.env[fv] = p
	}
	ex.topFrame = fr
	outs := ex.runBlock(fr, st, fn.Blocks[0], 0)
	// every assert clause must have met its call site (else the contract is stale)
	for _, cl := range c.Clauses {
		if cl.Kind == "assert" && tagActive(cl.Tags, ex.prop) {
			if !cl.Reached && !cl.Schema {
				// the call that carried this obligation is gone from the function: the obligation cannot be
				// discharged any more (reported as a failed obligation, without a failing input)
				label := cl.Label
				if label == "" {
					label = fmt.Sprint(cl.Ord)
				}
				ob := ex.addObl(entry, "assert", ex.oblName("assert", fmt.Sprintf("#%s@%s#missing", label, lastSeg(cl.Names[0]))), TFalse, fn.Pos(),
					cl.Text+"   [no call of "+cl.Names[0]+" is reached in this function any more]")
				ob.Hyps = nil
			}
			cl.Reached = false
		}
	}

	rts := resultTypes(fn.Signature)
	nret := 0
	for _, o := range outs {
		if o.Panic {
			if c.Flags["safety"] {
				ex.addObl(o.St, "safety", ex.oblName("safety", "#panic"), TFalse, fn.Pos(), "function does not panic")
			}
			continue
		}
		nret++
		ex.releasedAtReturn(o.St, fn.Pos())
		penv := &CEnv{ex: ex, st: o.St, old: entry, vars: map[string]TV{}, fn: fn}
		for k, v := range env.vars {
			penv.vars[k] = v
		}
		// locals the contract describes ("local x = result of f") hold, in a postcondition, their value at the return
		if o.Fr != nil && o.Fr.fn == fn {
			var lenv *CEnv
			for _, cl := range c.Clauses {
				if cl.Kind != "local" || !tagActive(cl.Tags, ex.prop) {
					continue
				}
				if lenv == nil {
					lenv = ex.localEnv(o.Fr, o.St)
				}
				if v, ok := lenv.vars[cl.Names[0]]; ok {
					if _, dup := penv.vars[cl.Names[0]]; !dup {
						penv.vars[cl.Names[0]] = v
					}
				}
			}
		}
		for i, r := range o.Ret {
			n := fn.Signature.Results().At(i).Name()
			if fn.Origin() != nil {
				n = fn.Origin().Signature.Results().At(i).Name()
			}
			if n != "" && n != "_" {
				penv.vars[n] = TV{r, rts[i]}
			}
			penv.vars[fmt.Sprintf("result%d", i)] = TV{r, rts[i]}
		}
		if len(o.Ret) == 1 {
			penv.vars["result"] = TV{o.Ret[0], rts[0]}
		}
		if n := len(o.Ret); n > 0 && isErrorType(rts[n-1]) {
			penv.vars["lasterr"] = TV{o.Ret[n-1], rts[n-1]}
		}
		for _, cl := range c.Clauses {
			if cl.Kind != "ensures" || !tagOwned(cl.Tags, ex.prop) || cl.Assumed {
				continue
			}
			g := ex.evalBool(cl.E, penv)
			label := cl.Label
			if label == "" {
				label = fmt.Sprint(cl.Ord)
			}
			ob := ex.addObl(o.St, "ensures", ex.oblName("ensures", "#"+label), g, fn.Pos(), cl.Text)
			ob.Vars = ex.replayVars(fn, args, o.Ret)
		}
		// heap frame of functions declared pure: every heap map is what it was at entry
		if c.Flags["pure"] {
			if _, havocked := o.St.heap["!epoch"]; havocked {
				ex.addObl(o.St, "frame", ex.oblName("frame", "#heap"), TFalse, fn.Pos(), "declared pure but calls code that may write the heap")
			} else {
				for _, k := range sortedKeys(o.St.heap) {
					cur := o.St.heap[k]
					old := ex.heapArr(entry, k, "")
					if cur.S != old.S {
						// objects allocated by this activation (negative references) are not part of the frame
						_, vs := arraySorts(cur.Sort)
						g := &Term{S: fmt.Sprintf("(forall ((r!q Int)) (=> (>= r!q 0) (= (select %s r!q) (select %s r!q))))", cur.S, old.S), Sort: SBool}
						_ = vs
						ex.addObl(o.St, "frame", ex.oblName("frame", "#heap:"+k), g, fn.Pos(), "declared pure: heap map "+k+" unchanged on pre-existing objects")
					}
				}
			}
		}
		// ghost frame: ghosts not listed in modifies are unchanged
		mod := ex.contractEffects(c).Ghosts
		for _, gname := range ex.frameGhosts {
			if mod[gname] || !claimsGhostFrame(c, ex.prop) {
				continue
			}
			cur, old := ex.ghostVal(o.St, gname), ex.ghostVal(entry, gname)
			if cur.S == old.S {
				continue
			}
			ex.addObl(o.St, "frame", ex.oblName("frame", "#"+gname), Eq(cur, old), fn.Pos(), "ghost "+gname+" unchanged (not in modifies)")
		}
	}
	if nret == 0 && len(outs) == 0 {
		ex.warn("no path of %s reaches a return", key)
	}
	rep.Paths = ex.paths
	rep.Obligations = len(ex.obls) - before
	// cover: the precondition is satisfiable and at least one return path is
	// feasible (one cover query per return path; the function is vacuous only
	// if none of them is satisfiable)
	for _, o := range outs {
		if o.Panic {
			continue
		}
		ob := &Obligation{Name: ex.oblName("cover", "#reach"), Kind: "cover", Func: key, Inst: ex.curInst, Hyps: append([]*Term(nil), o.St.pc...), Goal: TFalse, Pos: ex.pos(fn.Pos())}
		ex.obls = append(ex.obls, ob)
	}
	return rep
}

func (ex *Exec) replayVars(fn *ssa.Function, args []Val, rets []Val) map[string]*Term {
	m := map[string]*Term{}
	for i, p := range fn.Params {
		if t, ok := args[i].(*Term); ok {
			m["in:"+p.Name()] = t
		}
	}
	for i, r := range rets {
		if t, ok := r.(*Term); ok {
			m[fmt.Sprintf("out:%d", i)] = t
		}
	}
	return m
}

// lemmas: formulas over spec functions only, discharged without code.
func (ex *Exec) lemmaObligations() {
	for _, l := range ex.lib.Lemmas {
		if !tagOwned(l.Tags, ex.prop) || len(l.Tags) == 0 {
			continue
		}
		ex.curKey = "lemma"
		ex.curInst = ""
		st := NewState()
		env := &CEnv{ex: ex, st: st, vars: map[string]TV{}}
		g := ex.evalBool(l.E, env)
		ob := ex.addObl(st, "lemma", fmt.Sprintf("%s/lemma/%s", ex.prop, l.Name), g, 0, l.Text)
		ob.Func = "lemma " + l.Name
	}
}

// claimsGhostFrame: the contract says which ghosts the function modifies (a modifies
// clause, possibly empty through flag "noghost"); otherwise callers havoc the owned ghosts.
func claimsGhostFrame(c *Contract, prop string) bool {
	if c.Flags["noghost"] || c.Flags["pure"] {
		return true
	}
	for _, cl := range c.Clauses {
		if cl.Kind == "modifies" && tagActive(cl.Tags, prop) {
			return true
		}
	}
	return false
}

// findLocalByDesc finds the local variable (its cell) a "local" clause describes:
//
//	result [k] of <callee> [#n]   the variable that receives result k (default 0) of the n-th (default 1st) call,
//	                              in source order, of a function whose name ends with <callee>
//	accumulator [#n]              the n-th (default 1st) variable, in source order, that is assigned append(itself, ...)
//	counter [#n]                  the n-th variable that is assigned itself plus a constant
func findLocalByDesc(fn *ssa.Function, desc string) *ssa.Alloc {
	f := strings.Fields(desc)
	if len(f) == 0 {
		return nil
	}
	ord := 1
	if last := f[len(f)-1]; strings.HasPrefix(last, "#") {
		fmt.Sscanf(last, "#%d", &ord)
		f = f[:len(f)-1]
	}
	var blocks []*ssa.BasicBlock
	blocks = append(blocks, fn.Blocks...)
	type cand struct {
		pos   token.Pos
		alloc *ssa.Alloc
	}
	var cands []cand
	loadOf := func(v ssa.Value) *ssa.Alloc {
		if u, ok := v.(*ssa.UnOp); ok && u.Op == token.MUL {
			if a, ok := u.X.(*ssa.Alloc); ok {
				return a
			}
		}
		return nil
	}
	switch f[0] {
	case "result":
		k := 0
		rest := f[1:]
		if len(rest) > 0 && rest[0] != "of" {
			fmt.Sscanf(rest[0], "%d", &k)
			rest = rest[1:]
		}
		if len(rest) < 2 || rest[0] != "of" {
			return nil
		}
		callee := rest[1]
		for _, b := range blocks {
			for _, ins := range b.Instrs {
				st, ok := ins.(*ssa.Store)
				if !ok {
					continue
				}
				a, ok := st.Addr.(*ssa.Alloc)
				if !ok || a.Comment == "" {
					continue
				}
				var call *ssa.Call
				idx := 0
				switch v := st.Val.(type) {
				case *ssa.Call:
					call = v
				case *ssa.Extract:
					call, _ = v.Tuple.(*ssa.Call)
					idx = v.Index
				}
				if call == nil || idx != k {
					continue
				}
				name := ""
				if call.Call.IsInvoke() {
					name = call.Call.Method.Name()
				} else if sc := call.Call.StaticCallee(); sc != nil {
					name = sc.Name()
				} else {
					name = call.Call.Value.Name()
				}
				if name == callee || strings.HasSuffix(name, "."+callee) {
					cands = append(cands, cand{call.Pos(), a})
				}
			}
		}
	case "accumulator":
		seen := map[*ssa.Alloc]bool{}
		for _, b := range blocks {
			for _, ins := range b.Instrs {
				st, ok := ins.(*ssa.Store)
				if !ok {
					continue
				}
				a, ok := st.Addr.(*ssa.Alloc)
				if !ok || a.Comment == "" || seen[a] {
					continue
				}
				call, ok := st.Val.(*ssa.Call)
				if !ok {
					continue
				}
				if bi, ok := call.Call.Value.(*ssa.Builtin); !ok || bi.Name() != "append" || len(call.Call.Args) == 0 {
					continue
				}
				if loadOf(call.Call.Args[0]) == a {
					seen[a] = true
					cands = append(cands, cand{call.Pos(), a})
				}
			}
		}
	case "counter":
		// the n-th variable that is assigned itself plus a constant
		seen := map[*ssa.Alloc]bool{}
		for _, b := range blocks {
			for _, ins := range b.Instrs {
				st, ok := ins.(*ssa.Store)
				if !ok {
					continue
				}
				a, ok := st.Addr.(*ssa.Alloc)
				if !ok || a.Comment == "" || seen[a] {
					continue
				}
				bo, ok := st.Val.(*ssa.BinOp)
				if !ok || bo.Op != token.ADD {
					continue
				}
				if _, isConst := bo.Y.(*ssa.Const); isConst && loadOf(bo.X) == a {
					seen[a] = true
					cands = append(cands, cand{st.Pos(), a})
				}
			}
		}
	default:
		return nil
	}
	sort.SliceStable(cands, func(i, j int) bool { return cands[i].pos < cands[j].pos })
	// distinct calls only (one call may be stored once per result)
	if ord < 1 || ord > len(cands) {
		return nil
	}
	return cands[ord-1].alloc
}

// capturedReadOnlyParam: the free variable fv of closure fn is bound (at every MakeClosure of fn in its parent) to the
// cell of a parameter of the parent, and that cell is written once (the spill of the parameter) and otherwise only read,
// by the parent and by all the closures it is handed to.
func capturedReadOnlyParam(fn *ssa.Function, fv *ssa.FreeVar) bool {
	parent := fn.Parent()
	if parent == nil {
		return false
	}
	idx := -1
	for i, f := range fn.FreeVars {
		if f == fv {
			idx = i
		}
	}
	if idx < 0 {
		return false
	}
	var alloc *ssa.Alloc
	for _, b := range parent.Blocks {
		for _, in := range b.Instrs {
			mc, ok := in.(*ssa.MakeClosure)
			if !ok || mc.Fn != fn || idx >= len(mc.Bindings) {
				continue
			}
			a, ok := mc.Bindings[idx].(*ssa.Alloc)
			if !ok || (alloc != nil && alloc != a) {
				return false
			}
			alloc = a
		}
	}
	if alloc == nil || alloc.Referrers() == nil {
		return false
	}
	stores := 0
	for _, r := range *alloc.Referrers() {
		switch x := r.(type) {
		case *ssa.Store:
			if x.Addr != alloc {
				return false
			}
			if _, isParam := x.Val.(*ssa.Parameter); !isParam {
				return false
			}
			stores++
		case *ssa.UnOp:
		case *ssa.DebugRef:
		case *ssa.MakeClosure:
			cf, ok := x.Fn.(*ssa.Function)
			if !ok {
				return false
			}
			for i, bnd := range x.Bindings {
				if bnd != alloc || i >= len(cf.FreeVars) || cf.FreeVars[i].Referrers() == nil {
					continue
				}
				for _, rr := range *cf.FreeVars[i].Referrers() {
					switch rr.(type) {
					case *ssa.UnOp, *ssa.DebugRef:
					default:
						return false
					}
				}
			}
		default:
			return false
		}
	}
	return stores == 1
}
