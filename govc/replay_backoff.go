package main

import (
	"fmt"
	"strings"
)

func init() { replayDrivers["backoff"] = replayBackoff }

// replayBackoff calls the real back-off policy with the (min, max, attempt) of the model, no response (hence no
// server hint), and evaluates the clauses of the property independently: the wait is never negative; Basic returns
// min; Exponential stays within [min, max], returns max above attempt 1023 and max (0 when min is 0) above 100.
func replayBackoff(ex *Exec, o *Obligation) (string, string, string, bool, error) {
	get := func(name string) (string, error) {
		v, ok := o.Model["in:"+name]
		if !ok {
			return "", fmt.Errorf("model has no value for %s", name)
		}
		return goLiteral(v, "int64")
	}
	min, err := get("min")
	if err != nil {
		return "", "", "", false, err
	}
	max, err := get("max")
	if err != nil {
		return "", "", "", false, err
	}
	n, err := get("attemptNum")
	if err != nil {
		return "", "", "", false, err
	}
	ctor := ""
	switch {
	case strings.Contains(o.Func, "ExponentialBackoffPolicy"):
		ctor = "ExponentialBackoffPolicy"
	case strings.Contains(o.Func, "BasicRetryPolicy"):
		ctor = "BasicRetryPolicy"
	case strings.Contains(o.Func, "LinearBackoffPolicy"):
		ctor = "LinearBackoffPolicy"
	default:
		return "", "", "", false, fmt.Errorf("no back-off policy in %s", o.Func)
	}
	src := fmt.Sprintf(`package http

import (
	"testing"
	"time"
)

func TestVerifReplay(t *testing.T) {
	min, max, n := time.Duration(%s), time.Duration(%s), int(%s)
	p := &%s{}
	p.ConsiderRetryAfter = false
	r := p.Apply(min, max, n, nil)
	kind := %q
	bad := ""
	switch kind {
	case "BasicRetryPolicy":
		if r != min {
			bad = "constant policy does not return min"
		}
	case "ExponentialBackoffPolicy":
		switch {
		case r < min || r > max:
			bad = "wait outside [min, max]"
		case n > 1023 && r != max:
			bad = "wait is not max for a huge attempt number"
		case n > 100 && n <= 1023 && ((min == 0 && r != 0) || (min != 0 && r != max)):
			bad = "wait is not saturated for a large attempt number"
		}
	case "LinearBackoffPolicy":
		if r < 0 {
			bad = "negative wait"
		}
	}
	if bad != "" {
		t.Fatalf("REPRODUCED: %%s: %%s.Apply(min=%%v, max=%%v, attempt=%%d, no response) = %%v", bad, kind, min, max, n, r)
	}
	t.Logf("NOT-REPRODUCED: %%s.Apply(min=%%v, max=%%v, attempt=%%d) = %%v", kind, min, max, n, r)
}
`, min, max, n, ctor, ctor)
	return "http", src, "^TestVerifReplay$", false, nil
}
