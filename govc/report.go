package main

import (
	"encoding/json"
	"fmt"
	"os"
	"path/filepath"
	"sort"
	"strings"
	"time"
)

type KnownFinding struct {
	Property   string `json:"property"`
	Obligation string `json:"obligation"` // exact obligation name, or prefix ending in '*'
	Status     string `json:"status"`     // known | fixed
	Commit     string `json:"commit,omitempty"`
	What       string `json:"what"`
}

func loadKnown() []KnownFinding {
	var ks []KnownFinding
	data, err := os.ReadFile(filepath.Join(verifDir, "known_findings.json"))
	if err != nil {
		return nil
	}
	var doc struct {
		Findings []KnownFinding `json:"findings"`
	}
	if err := json.Unmarshal(data, &doc); err != nil {
		fatal("known_findings.json: %v", err)
	}
	ks = doc.Findings
	return ks
}

func matchKnown(ks []KnownFinding, prop, name string) *KnownFinding {
	for i := range ks {
		k := &ks[i]
		if k.Property != prop || k.Status != "known" {
			continue
		}
		if k.Obligation == name || (strings.HasSuffix(k.Obligation, "*") && strings.HasPrefix(name, strings.TrimSuffix(k.Obligation, "*"))) {
			return k
		}
	}
	return nil
}

type failure struct {
	Name  string
	Obls  []*Obligation
	Known *KnownFinding
}

func (ex *Exec) Report(cfg *PropConfig, tier string, seed int, reps []*FuncReport, stats *SolveStats, start time.Time, loadS, genS float64, tmo int, partial bool, noReplay bool) int {
	known := loadKnown()
	total, discharged := 0, 0
	byKind := map[string]int{}
	var vacuous []string
	fails := map[string]*failure{}
	var order []string
	unsuppAll := map[string]bool{}
	coverSat := map[string]bool{}
	var coverOrder []string
	for _, o := range ex.obls {
		for _, u := range o.Unsupp {
			unsuppAll[u] = true
		}
		if o.Kind == "cover" {
			if _, ok := coverSat[o.Name]; !ok {
				coverSat[o.Name] = false
				coverOrder = append(coverOrder, o.Name)
			}
			if o.Status == "sat" {
				coverSat[o.Name] = true
			}
			continue
		}
		if o.Status == "unsat" {
			total++
			discharged++
			byKind[o.Kind]++
			continue
		}
		f := fails[o.Name]
		if f == nil {
			f = &failure{Name: o.Name, Known: matchKnown(known, ex.prop, o.Name)}
			fails[o.Name] = f
			order = append(order, o.Name)
		}
		f.Obls = append(f.Obls, o)
		if f.Known == nil {
			total++
			byKind[o.Kind]++
		}
	}
	for _, n := range coverOrder {
		if !coverSat[n] {
			vacuous = append(vacuous, n)
		}
	}
	sort.Strings(order)
	violations := 0
	var knownMatched []string
	replayDir := filepath.Join(verifDir, "out", "replay")
	os.MkdirAll(replayDir, 0o755)
	var lines []string
	for _, name := range order {
		f := fails[name]
		if f.Known != nil {
			lines = append(lines, fmt.Sprintf("KNOWN-FINDING: property=%s %s [obligation %s]", ex.prop, f.Known.What, name))
			knownMatched = append(knownMatched, name)
			continue
		}
		violations++
		// pick the first sat obligation (it has a model), else the first
		pick := f.Obls[0]
		for _, o := range f.Obls {
			if o.Status == "sat" {
				pick = o
				break
			}
		}
		path := filepath.Join(replayDir, fmt.Sprintf("%s-%03d.json", ex.prop, violations))
		rp := ex.buildReplay(pick, cfg, noReplay)
		data, _ := json.MarshalIndent(rp, "", " ")
		os.WriteFile(path, data, 0o644)
		suffix := ""
		if rp.Outcome != "reproduced" {
			suffix = " no-failing-input-found"
		}
		lines = append(lines, fmt.Sprintf("VIOLATION property=%s replay=%s obligation=%s%s", ex.prop, path, name, suffix))
	}
	for _, v := range vacuous {
		lines = append(lines, "VACUOUS: "+v+" (precondition or path condition unsatisfiable)")
	}
	seenErr := map[string]bool{}
	for _, e := range ex.errs {
		if !seenErr[e] {
			seenErr[e] = true
			lines = append(lines, "ENGINE-ERROR: "+e)
		}
	}
	// stale contracts: a contract whose function no longer exists
	for _, l := range lines {
		fmt.Println(l)
	}
	wall := time.Since(start).Seconds()
	for _, d := range stats.Disagreements {
		fmt.Printf("ENGINE-ERROR: SOLVER DISAGREEMENT on a discharged obligation: %s\n", d)
	}
	broken := len(vacuous) > 0 || len(ex.errs) > 0 || (total == 0) || len(stats.Disagreements) > 0
	if total < cfg.MinObl && !partial {
		fmt.Printf("ENGINE-ERROR: only %d obligations generated, expected at least %d (functions under contract missing?)\n", total, cfg.MinObl)
		broken = true
	}
	// evidence
	if !partial {
		ex.writeEvidence(cfg, tier, seed, reps, stats, total, discharged, byKind, vacuous, knownMatched, violations, wall, loadS, genS, tmo, unsuppAll)
	}
	fmt.Printf("%s: %d obligations, %d discharged, %d violations, %d known findings, %d functions, %.1fs (load %.1fs, gen %.1fs)\n",
		ex.prop, total, discharged, violations, len(knownMatched), len(reps), wall, loadS, genS)
	if violations > 0 {
		return 1
	}
	if broken {
		return 2
	}
	return 0
}

func (ex *Exec) writeEvidence(cfg *PropConfig, tier string, seed int, reps []*FuncReport, stats *SolveStats, total, discharged int, byKind map[string]int,
	vacuous, knownMatched []string, violations int, wall, loadS, genS float64, tmo int, unsupp map[string]bool) {
	var samples []map[string]string
	seenKind := map[string]bool{}
	for _, o := range ex.obls {
		if o.Status == "unsat" && o.Solver != "syntactic" && !seenKind[o.Kind] && len(samples) < 6 {
			seenKind[o.Kind] = true
			samples = append(samples, map[string]string{"obligation": o.Name, "kind": o.Kind, "clause": o.Clause, "goal_smt": truncate(o.Goal.S, 600),
				"hypotheses": fmt.Sprint(len(o.Hyps)), "solver": o.Solver, "seconds": fmt.Sprintf("%.2f", o.Seconds), "pos": o.Pos})
		}
	}
	if len(samples) == 0 { // every obligation was decided while it was generated (typestate / folded goal): show those
		for _, o := range ex.obls {
			if o.Status == "unsat" && o.Kind != "cover" && !seenKind[o.Kind] && len(samples) < 6 {
				seenKind[o.Kind] = true
				samples = append(samples, map[string]string{"obligation": o.Name, "kind": o.Kind, "clause": o.Clause, "goal_smt": truncate(o.Goal.S, 600),
					"hypotheses": fmt.Sprint(len(o.Hyps)), "solver": o.Solver, "pos": o.Pos})
			}
		}
	}
	if samples == nil {
		samples = []map[string]string{}
	}
	var trusted []string
	trusted = append(trusted, "govc (this VC generator: contract parser, symbolic executor over go/ssa, SMT printer) and golang.org/x/tools go/ssa v0.29.0 lowering of /repo's working tree",
		"SMT solvers z3 4.8.12, z3 5.1.0, cvc5 1.0.3 (an obligation counts as discharged on unsat from any one)",
		"Go semantics as encoded: linux/amd64, integers are bit-vectors (machine arithmetic), floats IEEE-754 RNE, out-of-range float→int conversion unspecified")
	for _, k := range sortedBoolKeys(ex.usedExtern) {
		switch {
		case strings.HasPrefix(k, "helper "), strings.HasPrefix(k, "clause of "):
			trusted = append(trusted, "note: "+k)
		default:
			trusted = append(trusted, "assumed dependency contract: "+k)
		}
	}
	assumptions := append([]string(nil), cfg.Assumption...)
	assumptions = append(assumptions, "sequential execution of each function under proof; partial correctness (termination not proved)")
	if hs := sortedBoolKeys(ex.havocked); len(hs) > 0 {
		assumptions = append(assumptions, "callees without contract treated as arbitrary (results unconstrained, heap havocked): "+joinLimited(hs, 60))
	}
	for _, a := range ex.lib.Axioms {
		if tagActive(a.Tags, ex.prop) {
			assumptions = append(assumptions, "axiom "+a.Name+" (specs)")
		}
	}
	for _, e := range ex.exemptions {
		assumptions = append(assumptions, "exemption: "+e)
	}
	for _, w := range sortedBoolKeys(ex.warnings) {
		assumptions = append(assumptions, "engine note: "+w)
	}
	for _, u := range sortedBoolKeys(unsupp) {
		assumptions = append(assumptions, "abstracted construct (value unconstrained): "+u)
	}
	cov := map[string]interface{}{
		"obligations":              total,
		"discharged":               discharged,
		"checker_cmd":              fmt.Sprintf("/verif/check %s --tier %s   (govc -prop %s; solvers raced per obligation, %ds each)", ex.prop, tier, ex.prop, tmo),
		"trusted_base":             trusted,
		"functions_under_contract": reps,
		"by_backend":               stats.ByBackend,
		"solver_seconds":           roundMap(stats.Seconds),
		"by_kind":                  byKind,
		"inlined_callees":          sortedBoolKeys(ex.inlined),
		"vacuous":                  vacuous,
		"known_findings_matched":   knownMatched,
		"samples":                  samples,
		"bounded_assumption_checks": axLines,
		"facts_derived_from_code":   ex.derivedFacts,
		"solver_agreement":          agreement(stats),
		"undecided_clauses":        cfg.Undecided,
		"load_seconds":             round2(loadS),
		"generation_seconds":       round2(genS),
		"max_ops_between_checks":   ex.maxOps,
		"explanation": "Every obligation is generated from the go/ssa form of /repo's current working tree against the //@ contracts in zz_contracts_verif.go; " +
			"obligations matched by a 'known' entry of known_findings.json are listed under known_findings_matched and counted in neither obligations nor discharged.",
	}
	ev := map[string]interface{}{
		"property_id": ex.prop, "tier": tier, "seed": seed, "level": cfg.Level, "coverage": cov, "assumptions": assumptions,
		"wall_s": round2(wall), "violations": violations,
	}
	dir := filepath.Join(verifDir, "evidence")
	if os.Getenv("GOVC_REPO") != "" {
		dir = filepath.Join(verifDir, "out", "scratch-evidence") // a run on a scratch copy (selftest) never describes /repo
	}
	os.MkdirAll(dir, 0o755)
	data, _ := json.MarshalIndent(ev, "", " ")
	os.WriteFile(filepath.Join(dir, ex.prop+".json"), data, 0o644)
}

func round2(f float64) float64 { return float64(int(f*100+0.5)) / 100 }
func roundMap(m map[string]float64) map[string]float64 {
	r := map[string]float64{}
	for k, v := range m {
		r[k] = round2(v)
	}
	return r
}

// agreement: thorough tier - every discharged obligation is also given to the solvers that lost the race
// (10 s each); the map says how many obligations were proved by 1, 2 or 3 solvers independently.
func agreement(stats *SolveStats) interface{} {
	if stats.ProvedBy == nil {
		return "not run in this tier (thorough only)"
	}
	m := map[string]interface{}{}
	for k, v := range stats.ProvedBy {
		m[fmt.Sprintf("proved_by_%d_solvers", k)] = v
	}
	m["disagreements"] = stats.Disagreements
	if stats.Disagreements == nil {
		m["disagreements"] = []string{}
	}
	return m
}
