package main

import (
	"fmt"
	"math"
	"strings"
)

func uint64FromFloat(f float64) uint64 { return math.Float64bits(f) }

// toZ gives the mathematical (192-bit signed) view of a numeric term; floats are
// truncated toward zero and saturate at ±2^127 (every integer target range lies
// far inside).
func (ex *Exec) toZ(t *Term) *Term {
	switch {
	case t.Sort == SZ:
		return t
	case isBV(t.Sort):
		r := Extend(t, ZBITS, true)
		return r
	case isFP(t.Sort):
		big := fpLit(t.Sort, pow2Real(127), false)
		nbig := fpLit(t.Sort, pow2Real(127), true)
		p127 := "(bvshl (_ bv1 192) (_ bv127 192))"
		s := fmt.Sprintf("(ite (fp.isNaN %s) (_ bv0 192) (ite (fp.geq %s %s) %s (ite (fp.leq %s %s) (bvneg %s) ((_ fp.to_sbv 192) RTZ %s))))",
			t.S, t.S, big.S, p127, t.S, nbig.S, p127, t.S)
		return ex.define("trunc", &Term{S: s, Sort: SZ, Signed: true})
	}
	return nil
}

func (ex *Exec) evalCall(c *ECall, env *CEnv, want string) TV {
	bad := func(f string, a ...interface{}) TV {
		ex.cerr(f, a...)
		if want == "" {
			want = SBool
		}
		return TV{V: ex.freshTerm("bad", want, false)}
	}
	argT := func(i int, w string) *Term { return ex.evalTerm(c.Args[i], env, w) }
	need := func(n int) bool {
		if len(c.Args) != n {
			ex.cerr("%s expects %d arguments", c.Fun, n)
			return false
		}
		return true
	}
	switch c.Fun {
	case "old":
		if !need(1) {
			return bad("old")
		}
		e2 := *env
		e2.inOld = true
		return ex.eval(c.Args[0], &e2, want)
	case "Z", "trunc":
		if !need(1) {
			return bad("Z")
		}
		v := ex.eval(c.Args[0], env, "")
		t := ex.tvTerm(env, v, "")
		if t == nil {
			return bad("Z of non-numeric %s", c.Args[0].String())
		}
		z := ex.toZ(t)
		if z == nil {
			return bad("Z of non-numeric %s", c.Args[0].String())
		}
		z.Signed = true
		return TV{V: z}
	case "clamp":
		if !need(3) {
			return bad("clamp")
		}
		z, lo, hi := argT(0, SZ), argT(1, SZ), argT(2, SZ)
		r := Ite(app(SBool, "bvslt", z, lo), lo, Ite(app(SBool, "bvsgt", z, hi), hi, z))
		r.Signed = true
		return TV{V: ex.define("clamp", r)}
	case "isNaN":
		t := argT(0, "")
		if !isFP(t.Sort) {
			return TV{V: TFalse}
		}
		return TV{V: app(SBool, "fp.isNaN", t)}
	case "isInf":
		t := argT(0, "")
		if !isFP(t.Sort) {
			return TV{V: TFalse}
		}
		return TV{V: app(SBool, "fp.isInfinite", t)}
	case "min", "max":
		if !need(2) {
			return bad("min")
		}
		a := ex.eval(c.Args[0], env, want)
		at := ex.tvTerm(env, a, "")
		bt := argT(1, at.Sort)
		if isBV(at.Sort) && isBV(bt.Sort) && at.Sort != bt.Sort {
			w := bvBits(at.Sort)
			if bvBits(bt.Sort) > w {
				w = bvBits(bt.Sort)
			}
			at, bt = Extend(at, w, at.Signed), Extend(bt, w, bt.Signed)
		}
		var le *Term
		switch {
		case isBV(at.Sort):
			op := "bvsle"
			if !at.Signed && at.Sort != SZ {
				op = "bvule"
			}
			le = app(SBool, op, at, bt)
		case at.Sort == SInt:
			le = app(SBool, "<=", at, bt)
		case isFP(at.Sort):
			le = app(SBool, "fp.leq", at, bt)
		default:
			return bad("min/max of %s", at.Sort)
		}
		var r *Term
		if c.Fun == "min" {
			r = Ite(le, at, bt)
		} else {
			r = Ite(le, bt, at)
		}
		r.Signed = at.Signed
		return TV{V: r}
	case "len":
		if !need(1) {
			return bad("len")
		}
		v := ex.eval(c.Args[0], env, "")
		switch x := v.V.(type) {
		case *SliceV:
			return TV{V: x.Len}
		case *Term:
			if x.Sort == SString {
				return TV{V: ex.strLen(x)}
			}
		case *ArrayV:
			return TV{V: BVInt(int64(len(x.E)), 64, true)}
		}
		return bad("len of %s", c.Args[0].String())
	case "is":
		if !need(2) {
			return bad("is")
		}
		a, b := argT(0, SErr), argT(1, SErr)
		if a.Sort != SErr || b.Sort != SErr {
			return bad("is() needs errors: %s", c.String())
		}
		return TV{V: app(SBool, "is_", a, b)}
	case "contains":
		return TV{V: app(SBool, "str.contains", argT(0, SString), argT(1, SString))}
	case "prefix": // prefix(p, s): p is a prefix of s
		return TV{V: app(SBool, "str.prefixof", argT(0, SString), argT(1, SString))}
	case "suffix":
		return TV{V: app(SBool, "str.suffixof", argT(0, SString), argT(1, SString))}
	case "concat":
		var ts []*Term
		for i := range c.Args {
			ts = append(ts, argT(i, SString))
		}
		return TV{V: app(SString, "str.++", ts...)}
	case "ite":
		if !need(3) {
			return bad("ite")
		}
		cnd := ex.evalBool(c.Args[0], env)
		a := ex.eval(c.Args[1], env, want)
		at := ex.tvTerm(env, a, want)
		bt := argT(2, at.Sort)
		return TV{V: Ite(cnd, at, bt)}
	case "string":
		// string(b): the conversion of a byte slice (the same term the code's own string(b) yields)
		if !need(1) {
			return bad("string")
		}
		v := ex.eval(c.Args[0], env, "")
		if sl, ok := v.V.(*SliceV); ok {
			ex.declareUF("string_of", []string{"(Array (_ BitVec 64) (_ BitVec 8))", bvSort(64)}, SString)
			return TV{V: app(SString, "string_of", ex.sliceArr(env.state(), sl), sl.Len)}
		}
		if t, ok := v.V.(*Term); ok && t.Sort == SString {
			return TV{V: t}
		}
		return bad("string() of %s", c.Args[0].String())
	case "strval":
		// strval(x): the string held by interface value x (x was made from a string on this path)
		if !need(1) {
			return bad("strval")
		}
		v := ex.eval(c.Args[0], env, "")
		if iv, ok := v.V.(*IfaceV); ok && !iv.Nil {
			if t, ok := iv.V.(*Term); ok && t.Sort == SString {
				return TV{V: t}
			}
		}
		if t, ok := v.V.(*Term); ok && t.Sort == SString {
			return TV{V: t}
		}
		return bad("strval of a value that is not an interface made from a string: %s", c.Args[0].String())
	case "dyntype":
		// dyntype(x, "T"): the dynamic type of interface value x is T (short name, e.g. "*BasicRetryPolicy")
		if !need(2) {
			return bad("dyntype")
		}
		v := ex.eval(c.Args[0], env, "")
		lit, ok := c.Args[1].(*ELit)
		if !ok {
			return bad("dyntype needs a literal type name")
		}
		iv, ok := v.V.(*IfaceV)
		if !ok {
			return bad("dyntype of non-interface %s", c.Args[0].String())
		}
		if iv.Nil {
			return TV{V: TFalse}
		}
		if iv.Dyn != nil {
			n := shortType(iv.Dyn)
			n = strings.ReplaceAll(n, lastPkg(n), "")
			if n == lit.Text || shortType(iv.Dyn) == lit.Text {
				return TV{V: TTrue}
			}
			return TV{V: TFalse}
		}
		name := "dyn_is_" + sanitizeName(lit.Text)
		ex.declareUF(name, []string{iv.Sym.Sort}, SBool)
		return TV{V: app(SBool, name, iv.Sym)}
	case "int64", "int", "uint64", "uint", "int32", "uint32", "int16", "uint16", "int8", "uint8":
		// spec-level truncating conversion of bit-vectors
		t := argT(0, "")
		s := sortAlias[c.Fun]
		if c.Fun == "uint" {
			s = bvSort(64)
		}
		if !isBV(t.Sort) {
			return bad("conversion %s of non-integer", c.Fun)
		}
		r := Extend(t, bvBits(s), !strings.HasPrefix(c.Fun, "u"))
		return TV{V: r}
	case "float64", "float32":
		t := argT(0, "")
		s := sortAlias[c.Fun]
		e, sg := fpDims(s)
		switch {
		case isBV(t.Sort):
			op := "to_fp"
			if !t.Signed {
				op = "to_fp_unsigned"
			}
			return TV{V: &Term{S: fmt.Sprintf("((_ %s %d %d) RNE %s)", op, e, sg, t.S), Sort: s}}
		case isFP(t.Sort):
			return TV{V: &Term{S: fmt.Sprintf("((_ to_fp %d %d) RNE %s)", e, sg, t.S), Sort: s}}
		}
		return bad("float conversion")
	}
	// user-declared spec function
	sf, ok := ex.lib.Funs[c.Fun]
	if !ok {
		return bad("unknown spec function %s", c.Fun)
	}
	if len(sf.ArgSorts) != len(c.Args) {
		return bad("%s expects %d arguments", c.Fun, len(sf.ArgSorts))
	}
	var args []*Term
	for i := range c.Args {
		t := argT(i, sf.ArgSorts[i])
		if t.Sort != sf.ArgSorts[i] {
			if isBV(t.Sort) && isBV(sf.ArgSorts[i]) {
				t = Extend(t, bvBits(sf.ArgSorts[i]), t.Signed)
			} else {
				return bad("argument %d of %s has sort %s, wants %s", i+1, c.Fun, t.Sort, sf.ArgSorts[i])
			}
		}
		args = append(args, t)
	}
	r := app(sf.Ret, sf.Name, args...)
	if len(args) == 0 {
		r = &Term{S: sf.Name, Sort: sf.Ret}
	}
	if isBV(sf.Ret) {
		r.Signed = !sf.Unsigned
	}
	return TV{V: r}
}

func lastPkg(n string) string {
	// "*pkg.T" -> "pkg."
	s := strings.TrimLeft(n, "*[]")
	if i := strings.LastIndex(s, "."); i >= 0 {
		return s[:i+1]
	}
	return ""
}
