package main

import (
	"bytes"
	"context"
	"fmt"
	"os"
	"os/exec"
	"path/filepath"
	"sort"
	"strings"
	"sync"
	"time"
)

type solverSpec struct {
	Name  string
	Cmd   string
	Args  func(timeoutS int, seed int) []string
	Delay time.Duration
}

var solvers = []solverSpec{
	{Name: "z3-5.1.0", Cmd: "z3-new", Args: func(t, seed int) []string {
		return []string{fmt.Sprintf("-T:%d", t), fmt.Sprintf("smt.random_seed=%d", seed), fmt.Sprintf("sat.random_seed=%d", seed)}
	}},
	{Name: "cvc5-1.0.3", Cmd: "cvc5", Args: func(t, seed int) []string {
		return []string{fmt.Sprintf("--tlimit=%d", t*1000), "--strings-exp", fmt.Sprintf("--seed=%d", seed)}
	}},
	{Name: "z3-4.8.12", Cmd: "z3", Delay: 1500 * time.Millisecond, Args: func(t, seed int) []string {
		return []string{fmt.Sprintf("-T:%d", t), fmt.Sprintf("smt.random_seed=%d", seed)}
	}},
}

type solveResult struct {
	status string // sat unsat unknown
	solver string
	out    string
	secs   float64
}

func runSolver(ctx context.Context, sp solverSpec, file string, timeoutS, seed int) solveResult {
	if sp.Delay > 0 {
		select {
		case <-ctx.Done():
			return solveResult{status: "cancelled", solver: sp.Name}
		case <-time.After(sp.Delay):
		}
	}
	start := time.Now()
	args := append(sp.Args(timeoutS, seed), file)
	cmd := exec.CommandContext(ctx, sp.Cmd, args...)
	var out bytes.Buffer
	cmd.Stdout = &out
	cmd.Stderr = &out
	runErr := cmd.Run() // z3 4.8.12 exits 1 on get-value after unsat: the output decides
	if runErr != nil && out.Len() == 0 && ctx.Err() == nil {
		// the process could not be started (transient resource shortage): try once more
		time.Sleep(200 * time.Millisecond)
		cmd = exec.CommandContext(ctx, sp.Cmd, args...)
		out.Reset()
		cmd.Stdout = &out
		cmd.Stderr = &out
		runErr = cmd.Run()
		if runErr != nil && out.Len() == 0 {
			out.WriteString("solver did not start: " + runErr.Error())
		}
	}
	secs := time.Since(start).Seconds()
	text := out.String()
	st := "unknown"
	for _, ln := range strings.Split(text, "\n") {
		ln = strings.TrimSpace(ln)
		if ln == "sat" || ln == "unsat" {
			st = ln
			break
		}
		if ln == "unknown" || ln == "timeout" {
			break
		}
	}
	if ctx.Err() != nil && st == "unknown" {
		st = "cancelled"
	}
	return solveResult{status: st, solver: sp.Name, out: text, secs: secs}
}

// race runs all solvers on the file; the first definite answer wins.
func race(file string, timeoutS, seed int, only string) (solveResult, map[string]float64, []solveResult) {
	ctx, cancel := context.WithCancel(context.Background())
	defer cancel()
	ch := make(chan solveResult, len(solvers))
	n := 0
	for _, sp := range solvers {
		if only != "" && !strings.Contains(sp.Name, only) {
			continue
		}
		n++
		go func(sp solverSpec) { ch <- runSolver(ctx, sp, file, timeoutS, seed) }(sp)
	}
	times := map[string]float64{}
	var all []solveResult
	best := solveResult{status: "unknown"}
	for i := 0; i < n; i++ {
		r := <-ch
		times[r.solver] += r.secs
		all = append(all, r)
		if r.status == "sat" || r.status == "unsat" {
			if best.status == "unknown" {
				best = r
				cancel()
			} else if best.status != r.status && r.status != "cancelled" {
				best.out += "\nDISAGREEMENT: " + r.solver + " says " + r.status
			}
		} else if best.status == "unknown" && r.status == "unknown" {
			best.out += r.solver + ": " + strings.TrimSpace(firstLines(r.out, 3)) + "\n"
		}
	}
	return best, times, all
}

func firstLines(s string, n int) string {
	ls := strings.Split(s, "\n")
	if len(ls) > n {
		ls = ls[:n]
	}
	return strings.Join(ls, "\n")
}

type SolveStats struct {
	mu        sync.Mutex
	ByBackend map[string]int
	Seconds   map[string]float64
	// thorough tier only: how many obligations were proved by exactly 1, 2, 3 solvers independently
	ProvedBy      map[int]int
	Disagreements []string
}

// Discharge solves every obligation (16-way parallel).
func (ex *Exec) Discharge(outDir string, timeoutS, seed, workers int, agree bool) *SolveStats {
	stats := &SolveStats{ByBackend: map[string]int{}, Seconds: map[string]float64{}}
	os.MkdirAll(outDir, 0o755)
	var wg sync.WaitGroup
	sem := make(chan struct{}, workers)
	// cover queries: one satisfiable return path per function is enough; the others are skipped
	coverGroups := map[string][]int{}
	var coverOrder []string
	for i, o := range ex.obls {
		if o.Kind == "cover" {
			if _, ok := coverGroups[o.Name]; !ok {
				coverOrder = append(coverOrder, o.Name)
			}
			coverGroups[o.Name] = append(coverGroups[o.Name], i)
		}
	}
	for _, name := range coverOrder {
		idxs := coverGroups[name]
		wg.Add(1)
		sem <- struct{}{}
		go func(idxs []int) {
			defer wg.Done()
			defer func() { <-sem }()
			done := false
			for _, i := range idxs {
				o := ex.obls[i]
				if done {
					o.Status, o.Solver = "skipped", "cover-already-shown"
					continue
				}
				file := filepath.Join(outDir, fmt.Sprintf("%04d_%s.smt2", i, sanitizeName(o.Name)))
				os.WriteFile(file, []byte(ex.Query(o, false)), 0o644)
				r, times, _ := race(file, timeoutS, seed, "")
				o.Status, o.Solver, o.Seconds = r.status, r.solver, r.secs
				stats.mu.Lock()
				for k, v := range times {
					stats.Seconds[k] += v
				}
				stats.mu.Unlock()
				if r.status == "sat" {
					done = true
				}
			}
		}(idxs)
	}
	for i, o := range ex.obls {
		if o.Kind == "cover" {
			continue
		}
		if o.Kind != "cover" && o.Goal.S == "true" {
			o.Status = "unsat"
			o.Solver = "syntactic"
			stats.mu.Lock()
			stats.ByBackend["syntactic"]++
			stats.mu.Unlock()
			continue
		}
		if len(o.Unsupp) > 0 && o.Kind != "cover" {
			// keep going: the obligation is still checked, the abstraction is reported
		}
		wg.Add(1)
		sem <- struct{}{}
		go func(i int, o *Obligation) {
			defer wg.Done()
			defer func() { <-sem }()
			file := filepath.Join(outDir, fmt.Sprintf("%04d_%s.smt2", i, sanitizeName(o.Name)))
			q := ex.Query(o, true)
			os.WriteFile(file, []byte(q), 0o644)
			o.SMTFile = file
			tmo := timeoutS
			if ex.knownNames[o.Name] && tmo > 5 {
				tmo = 5 // a recorded finding: no need to wait long for solvers that cannot decide the failing goal
			}
			r, times, _ := race(file, tmo, seed, "")
			o.Status, o.Solver, o.Seconds, o.RawOut = r.status, r.solver, r.secs, r.out
			if agree && r.status == "unsat" {
				// thorough tier: the other solvers are asked too (short timeout), independently of the winner
				provers := 1
				for _, sp := range solvers {
					if sp.Name == r.solver {
						continue
					}
					r2 := runSolver(context.Background(), sp, file, 10, seed)
					times[sp.Name] += r2.secs
					switch r2.status {
					case "unsat":
						provers++
					case "sat":
						o.RawOut += "\nDISAGREEMENT: " + sp.Name + " says sat"
						stats.mu.Lock()
						stats.Disagreements = append(stats.Disagreements, o.Name+": "+r.solver+" unsat, "+sp.Name+" sat")
						stats.mu.Unlock()
					}
				}
				stats.mu.Lock()
				if stats.ProvedBy == nil {
					stats.ProvedBy = map[int]int{}
				}
				stats.ProvedBy[provers]++
				stats.mu.Unlock()
			}
			stats.mu.Lock()
			for k, v := range times {
				stats.Seconds[k] += v
			}
			if r.status == "unsat" || r.status == "sat" {
				stats.ByBackend[r.solver]++
			}
			stats.mu.Unlock()
			if r.status == "sat" {
				o.Model = parseValues(r.out, o.Vars)
				// steer the model towards this platform's behaviour for values Go leaves unspecified
				syms := map[string]bool{}
				symbolsOf(q, syms)
				var hints []string
				for s := range syms {
					if h, ok := ex.platformHints[s]; ok {
						hints = append(hints, "(assert "+h.S+")\n")
					}
				}
				if len(hints) > 0 {
					sort.Strings(hints)
					q2 := strings.Replace(q, "; goal:", strings.Join(hints, "")+"; goal:", 1)
					f2 := strings.TrimSuffix(file, ".smt2") + "_platform.smt2"
					os.WriteFile(f2, []byte(q2), 0o644)
					if r2, _, _ := race(f2, timeoutS, seed, ""); r2.status == "sat" {
						o.Model = parseValues(r2.out, o.Vars)
						o.RawOut += "\n; model re-solved with amd64 conversion hints (for replay only):\n" + r2.out
					}
				}
			}
		}(i, o)
	}
	wg.Wait()
	return stats
}

// parseValues reads the (get-value ...) answer: ((name value) ...)
func parseValues(out string, vars map[string]*Term) map[string]string {
	m := map[string]string{}
	i := strings.Index(out, "(")
	if i < 0 {
		return m
	}
	body := strings.TrimSpace(out[i:])
	// strip outer parens
	if len(body) < 2 {
		return m
	}
	pairs := splitSexprs(strings.ReplaceAll(body[1:strings.LastIndex(body, ")")], "\n", " "))
	byTerm := map[string]string{}
	for _, p := range pairs {
		if len(p) < 2 || p[0] != '(' {
			continue
		}
		kv := splitSexprs(p[1 : len(p)-1])
		if len(kv) == 2 {
			byTerm[kv[0]] = kv[1]
		}
	}
	for name, t := range vars {
		if v, ok := byTerm[t.S]; ok {
			m[name] = v
		}
	}
	return m
}
