package main

import (
	"fmt"
	"go/types"
	"math/big"
	"sort"
	"strings"
)

// Term is an SMT-LIB term together with its sort. Integers are bit-vectors
// (machine arithmetic), floats are IEEE FloatingPoint values.
type Term struct {
	S      string // SMT-LIB text
	Sort   string // SMT-LIB sort text
	Signed bool   // for bit-vectors: Go signedness of the static type
}

const (
	SBool   = "Bool"
	SString = "String"
	SErr    = "Err"
	SRef    = "Int" // object references are integers: 0 = nil, negatives = allocated on this path
	SInt    = "Int"
	SF64    = "(_ FloatingPoint 11 53)"
	SF32    = "(_ FloatingPoint 8 24)"
	SZ      = "(_ BitVec 192)" // the "mathematical" view used by specifications
	ZBITS   = 192
)

func bvSort(n int) string { return fmt.Sprintf("(_ BitVec %d)", n) }

func bvBits(sort string) int {
	var n int
	if _, err := fmt.Sscanf(sort, "(_ BitVec %d)", &n); err == nil {
		return n
	}
	return 0
}
func isBV(sort string) bool { return strings.HasPrefix(sort, "(_ BitVec") }
func isFP(sort string) bool { return strings.HasPrefix(sort, "(_ FloatingPoint") }

func fpDims(sort string) (int, int) {
	var e, s int
	fmt.Sscanf(sort, "(_ FloatingPoint %d %d)", &e, &s)
	return e, s
}

var (
	TTrue  = &Term{S: "true", Sort: SBool}
	TFalse = &Term{S: "false", Sort: SBool}
)

func mk(sort string, signed bool, f string, args ...interface{}) *Term {
	return &Term{S: fmt.Sprintf(f, args...), Sort: sort, Signed: signed}
}

func app(sort string, op string, args ...*Term) *Term {
	var b strings.Builder
	b.WriteString("(")
	b.WriteString(op)
	for _, a := range args {
		b.WriteString(" ")
		b.WriteString(a.S)
	}
	b.WriteString(")")
	return &Term{S: b.String(), Sort: sort}
}

func Not(a *Term) *Term {
	switch a.S {
	case "true":
		return TFalse
	case "false":
		return TTrue
	}
	if strings.HasPrefix(a.S, "(not ") {
		return &Term{S: a.S[5 : len(a.S)-1], Sort: SBool}
	}
	return app(SBool, "not", a)
}

func And(as ...*Term) *Term {
	var keep []*Term
	for _, a := range as {
		if a.S == "false" {
			return TFalse
		}
		if a.S != "true" {
			keep = append(keep, a)
		}
	}
	switch len(keep) {
	case 0:
		return TTrue
	case 1:
		return keep[0]
	}
	return app(SBool, "and", keep...)
}

func Or(as ...*Term) *Term {
	var keep []*Term
	for _, a := range as {
		if a.S == "true" {
			return TTrue
		}
		if a.S != "false" {
			keep = append(keep, a)
		}
	}
	switch len(keep) {
	case 0:
		return TFalse
	case 1:
		return keep[0]
	}
	return app(SBool, "or", keep...)
}

func Implies(a, b *Term) *Term {
	if a.S == "true" {
		return b
	}
	if a.S == "false" || b.S == "true" {
		return TTrue
	}
	return app(SBool, "=>", a, b)
}

func Ite(c, a, b *Term) *Term {
	if c.S == "true" {
		return a
	}
	if c.S == "false" {
		return b
	}
	if a.S == b.S {
		return a
	}
	t := app(a.Sort, "ite", c, a, b)
	t.Signed = a.Signed
	return t
}

func Eq(a, b *Term) *Term {
	if a.S == b.S {
		return TTrue
	}
	if isFP(a.Sort) {
		return app(SBool, "fp.eq", a, b)
	}
	if a.Sort == SBool {
		if b.S == "true" {
			return a
		}
		if b.S == "false" {
			return Not(a)
		}
		if a.S == "true" {
			return b
		}
		if a.S == "false" {
			return Not(b)
		}
	}
	if c1, ok1 := constLit(a); ok1 {
		if c2, ok2 := constLit(b); ok2 && a.Sort == b.Sort {
			if c1 == c2 {
				return TTrue
			}
			return TFalse
		}
	}
	return app(SBool, "=", a, b)
}

// constLit recognises literal constants so that equalities between them fold.
func constLit(a *Term) (string, bool) {
	if strings.HasPrefix(a.S, "(_ bv") || strings.HasPrefix(a.S, "\"") {
		return a.S, true
	}
	if a.Sort == SInt {
		if _, ok := new(big.Int).SetString(a.S, 10); ok {
			return a.S, true
		}
		if strings.HasPrefix(a.S, "(- ") {
			if _, ok := new(big.Int).SetString(a.S[3:len(a.S)-1], 10); ok {
				return a.S, true
			}
		}
	}
	if strings.HasPrefix(a.S, "sentinel!") || strings.HasPrefix(a.S, "econst!") || a.S == "err_nil" { // distinct sentinel constants, all different from nil
		return a.S, true
	}
	return "", false
}

// BVConst builds a bit-vector literal of n bits holding v (two's complement).
func BVConst(v *big.Int, n int, signed bool) *Term {
	m := new(big.Int).Lsh(big.NewInt(1), uint(n))
	x := new(big.Int).Mod(v, m)
	if x.Sign() < 0 {
		x.Add(x, m)
	}
	return &Term{S: fmt.Sprintf("(_ bv%s %d)", x.String(), n), Sort: bvSort(n), Signed: signed}
}

func BVInt(v int64, n int, signed bool) *Term { return BVConst(big.NewInt(v), n, signed) }

func IntConst(v int64) *Term {
	if v < 0 {
		return &Term{S: fmt.Sprintf("(- %d)", -v), Sort: SInt}
	}
	return &Term{S: fmt.Sprintf("%d", v), Sort: SInt}
}

func StrConst(s string) *Term {
	var b strings.Builder
	b.WriteByte('"')
	for i := 0; i < len(s); i++ {
		c := s[i]
		if c == '"' {
			b.WriteString("\"\"")
		} else if c >= 0x20 && c < 0x7f && c != '\\' {
			b.WriteByte(c)
		} else {
			fmt.Fprintf(&b, "\\u{%x}", c)
		}
	}
	b.WriteByte('"')
	return &Term{S: b.String(), Sort: SString}
}

// FPConst builds a float literal from a Go float64 value rounded to the sort.
func FPConstFromBits(bits uint64, sort string) *Term {
	e, s := fpDims(sort)
	total := e + s
	return &Term{S: fmt.Sprintf("((_ to_fp %d %d) (_ bv%d %d))", e, s, bits, total), Sort: sort}
}

// Extend widens/narrows a bit-vector to n bits according to signedness of a.
func Extend(a *Term, n int, signedResult bool) *Term {
	w := bvBits(a.Sort)
	switch {
	case w == n:
		return &Term{S: a.S, Sort: a.Sort, Signed: signedResult}
	case w > n:
		return &Term{S: fmt.Sprintf("((_ extract %d 0) %s)", n-1, a.S), Sort: bvSort(n), Signed: signedResult}
	case a.Signed:
		return &Term{S: fmt.Sprintf("((_ sign_extend %d) %s)", n-w, a.S), Sort: bvSort(n), Signed: signedResult}
	default:
		return &Term{S: fmt.Sprintf("((_ zero_extend %d) %s)", n-w, a.S), Sort: bvSort(n), Signed: signedResult}
	}
}

// sortOfBasic maps a Go basic type to an SMT sort (linux/amd64).
func sortOfBasic(b *types.Basic) (sort string, signed bool, ok bool) {
	switch b.Kind() {
	case types.Bool, types.UntypedBool:
		return SBool, false, true
	case types.Int, types.Int64, types.UntypedInt:
		return bvSort(64), true, true
	case types.Int8:
		return bvSort(8), true, true
	case types.Int16:
		return bvSort(16), true, true
	case types.Int32, types.UntypedRune:
		return bvSort(32), true, true
	case types.Uint, types.Uint64, types.Uintptr:
		return bvSort(64), false, true
	case types.Uint8:
		return bvSort(8), false, true
	case types.Uint16:
		return bvSort(16), false, true
	case types.Uint32:
		return bvSort(32), false, true
	case types.Float64, types.UntypedFloat:
		return SF64, false, true
	case types.Float32:
		return SF32, false, true
	case types.String, types.UntypedString:
		return SString, false, true
	case types.UnsafePointer:
		return SRef, false, true
	}
	return "", false, false
}

// symbols returns the identifiers occurring in an SMT text (used for the
// cone-of-influence computation). Generated names never contain spaces or
// parentheses.
func symbolsOf(s string, into map[string]bool) {
	i := 0
	n := len(s)
	for i < n {
		c := s[i]
		if c == '"' { // string literal
			i++
			for i < n {
				if s[i] == '"' {
					if i+1 < n && s[i+1] == '"' {
						i += 2
						continue
					}
					break
				}
				i++
			}
			i++
			continue
		}
		if c == '|' {
			j := i + 1
			for j < n && s[j] != '|' {
				j++
			}
			into[s[i:min(j+1, n)]] = true
			i = j + 1
			continue
		}
		if isSymStart(c) {
			j := i + 1
			for j < n && isSymChar(s[j]) {
				j++
			}
			into[s[i:j]] = true
			i = j
			continue
		}
		i++
	}
}

func isSymStart(c byte) bool {
	return c == '_' || c == '!' || c == '$' || (c >= 'a' && c <= 'z') || (c >= 'A' && c <= 'Z')
}
func isSymChar(c byte) bool {
	return isSymStart(c) || c == '.' || c == '#' || c == '@' || c == '~' || (c >= '0' && c <= '9')
}

func sortedKeys[V any](m map[string]V) []string {
	ks := make([]string, 0, len(m))
	for k := range m {
		ks = append(ks, k)
	}
	sort.Strings(ks)
	return ks
}

func sanitizeName(s string) string {
	var b strings.Builder
	for i := 0; i < len(s); i++ {
		c := s[i]
		if (c >= 'a' && c <= 'z') || (c >= 'A' && c <= 'Z') || (c >= '0' && c <= '9') || c == '_' {
			b.WriteByte(c)
		} else {
			b.WriteByte('_')
		}
	}
	return b.String()
}
