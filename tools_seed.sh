#!/bin/bash
# usage: tools_seed.sh <seed-id> <property> <out-dir-of-agent> <pkg-dir-for-demo> "<go test pkgs for existing suite>"
# Confirms a seeded change (demo fails with / passes without, existing tests unaffected) on scratch
# copies of /repo and runs the property's check against it. Scratch copies are removed at the end.
ID=$1; PROP=$2; SRC=$3; DEMOPKG=$4; PKGS=$5
export GOFLAGS=-mod=mod GOPROXY=off; unset GOSUMDB
mkdir -p /verif/seeded/$ID
cp $SRC/patch.diff /verif/seeded/$ID/patch.diff
cp $SRC/demo_test.go /verif/seeded/$ID/demo_test.go
A=$(mktemp -d /tmp/seedchk-XXXXXX); B=$(mktemp -d /tmp/seedchk-XXXXXX)
rsync -a --exclude .git /repo/ $A/; rsync -a --exclude .git /repo/ $B/
(cd $B && patch -p1 -s < /verif/seeded/$ID/patch.diff) || { echo "PATCH DOES NOT APPLY"; rm -rf $A $B; exit 1; }
cp $SRC/demo_test.go $A/$DEMOPKG/zz_seeded_demo_test.go; cp $SRC/demo_test.go $B/$DEMOPKG/zz_seeded_demo_test.go
(cd $A/utils && go test -count=1 -run '^TestSeededDemo$' ./${DEMOPKG#utils/}/ > /tmp/seed_without.log 2>&1); RW=$?
(cd $B/utils && go test -count=1 -run '^TestSeededDemo$' ./${DEMOPKG#utils/}/ > /tmp/seed_with.log 2>&1); RC=$?
rm $A/$DEMOPKG/zz_seeded_demo_test.go $B/$DEMOPKG/zz_seeded_demo_test.go
# timing-dependent tests that fail now and then on the untouched tree are left out of the comparison
FLAKY='TestLockConcurrentSafeguard\|TestLockSequential\|TestLockStale\|TestClientHappy\|TestClientWithDifferentBodies\|TestExecuteEmptyLines\|TestRemoveEntry'
BASEKEY=/tmp/seedbase-$(echo "$PKGS" | md5sum | cut -c1-12)-$(git -C /repo rev-parse --short HEAD).log
if [ ! -s $BASEKEY ]; then
(cd $A/utils && go test -count=1 $PKGS 2>&1 | grep -- "^--- FAIL\|^    --- FAIL\|^FAIL\|^ok" | grep -v "$FLAKY" | sed 's/ ([0-9.]*s)//; s/\t[0-9.]*s$//' | sort > $BASEKEY)
fi
cp $BASEKEY /tmp/seed_base_tests.log
(cd $B/utils && go test -count=1 $PKGS 2>&1 | grep -- "^--- FAIL\|^    --- FAIL\|^FAIL\|^ok" | grep -v "$FLAKY" | sed 's/ ([0-9.]*s)//; s/\t[0-9.]*s$//' | sort > /tmp/seed_mut_tests.log)
# "unchanged" = no test that passes on the untouched copy fails on the changed one (FAIL lines of the changed copy are a subset)
if [ -z "$(grep -- '--- FAIL' /tmp/seed_mut_tests.log | sort | comm -13 <(grep -- '--- FAIL' /tmp/seed_base_tests.log | sort) -)" ]; then SAME=true; else SAME=false; fi
GOVC_REPO=$B /verif/bin/govc -prop $PROP -noreplay > /verif/seeded/$ID/check.log 2>&1; CK=$?
rm -rf $A $B
echo "seed=$ID prop=$PROP demo_without_rc=$RW demo_with_rc=$RC existing_tests_same=$SAME check_rc=$CK"
grep "^VIOLATION\|^ENGINE" /verif/seeded/$ID/check.log | sed 's/.*obligation=/   caught by: /' | head -8
