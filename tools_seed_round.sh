#!/bin/bash
# usage: tools_seed_round.sh quick|confirm  Cxx...
# Handles the outputs of a seeding round laid out as /tmp/seedout-Cxx/{a,b}/{patch.diff,demo_test.go,meta.json}.
#  quick   : run only the property's check against each patch (scratch copy), print what it reports
#  confirm : full confirmation with tools_seed.sh (demo fails/passes, existing tests, check); keeps seeded/<id>/
mode=$1; shift
cd /verif
for p in "$@"; do for v in a b; do
  d=/tmp/seedout-$p/$v; [ -f $d/patch.diff ] && [ -f $d/meta.json ] || { echo "$p/$v: incomplete"; continue; }
  id=$(python3 -c "import json;print(json.load(open('$d/meta.json'))['id'])" 2>/dev/null)
  if [ "$mode" = quick ]; then
    B=$(mktemp -d /tmp/seedchk-XXXXXX); rsync -a --exclude .git /repo/ $B/
    if ! (cd $B && patch -p1 -s < $d/patch.diff); then echo "$p/$v $id: PATCH DOES NOT APPLY"; rm -rf $B; continue; fi
    GOVC_REPO=$B timeout 900 /verif/bin/govc -prop $p -noreplay > $d/check.log 2>&1; CK=$?
    rm -rf $B
    echo "$p/$v $id check_rc=$CK; $(grep '^VIOLATION' $d/check.log | head -2 | sed 's/.*obligation=//' | tr '\n' ';')$(grep '^ENGINE' $d/check.log | head -2 | tr '\n' ';')"
  else
    demo=$(python3 -c "import json;print(json.load(open('$d/meta.json'))['demo_pkg'])")
    pk=$(python3 -c "import json;m=json.load(open('$d/meta.json'))['test_pkgs'];print(m if isinstance(m,str) else ' '.join(m))")
    ./tools_seed.sh "$id" "$p" "$d" "$demo" "$pk" 2>&1 | grep -v WARNING
    cp $d/meta.json seeded/$id/meta.agent.json
    comm -13 /tmp/seed_base_tests.log /tmp/seed_mut_tests.log | sed 's/^/   NEW FAILURE: /'
  fi
done; done
