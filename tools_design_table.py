#!/usr/bin/env python3
# Rewrites the status table of DESIGN.md §12.1 (between the markers) from evidence/*.json and known_findings.json.
import json,glob,re
k=json.load(open('/verif/known_findings.json'))['findings']
rows=[]
for f in sorted(glob.glob('/verif/evidence/C*.json')):
    d=json.load(open(f)); c=d['coverage']; p=d['property_id']
    kinds=', '.join(f"{v} {n}" for n,v in sorted(c['by_kind'].items()))
    known=len([e for e in k if e['property']==p and e['status']=='known'])
    fixes=', '.join(e['commit'] for e in k if e['property']==p and e['status']=='fixed') or '–'
    mt=c.get('mutants_total'); mk=c.get('mutants_killed')
    rows.append(f"| {p} | {c['obligations']} | {len(c['functions_under_contract'])} | {kinds} | {known or '–'} | {fixes} |")
table="| id | obligations discharged (quick, unchanged tree) | functions under contract | by kind | known findings | fix commits |\n|---|---|---|---|---|---|\n"+'\n'.join(rows)
s=open('/verif/DESIGN.md').read()
a='<!-- status-table:begin -->'; b='<!-- status-table:end -->'
if a in s:
    s=s[:s.index(a)+len(a)]+'\n'+table+'\n'+s[s.index(b):]
rows=[]
for d in sorted(glob.glob('/verif/seeded/*/')):
    m=json.load(open(d+'meta.json'))
    cb=m['caught_by'][0].split('/',1)[1] if m['caught_by'] else '-'
    n=len(m['caught_by'])
    w=m['caught_when']
    when='as registered' if (w.startswith('as registered') or w.startswith('initially')) else ('NOT caught (corpus/missed)' if w.startswith('NOT caught') else 'after strengthening')
    rows.append(f"| {m['id']} | `{cb}`{' (+%d more)'%(n-1) if n>1 else ''} | {when} |")
st="| seeded change | first obligation that fails | caught |\n|---|---|---|\n"+'\n'.join(rows)
a='<!-- seeded-table:begin -->'; b='<!-- seeded-table:end -->'
if a in s:
    s=s[:s.index(a)+len(a)]+'\n'+st+'\n'+s[s.index(b):]
open('/verif/DESIGN.md','w').write(s)
