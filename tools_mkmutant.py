#!/usr/bin/env python3
# usage: tools_mkmutant.py <mutants|harmless> <prop> <name> <file-relative-to-repo> <expect> <<< "old\n====\nnew"
import sys, subprocess, os, tempfile, shutil
kind, prop, name, rel, expect = sys.argv[1:6]
old, new = sys.stdin.read().split("\n====\n")
new = new.rstrip("\n") if not new.endswith("\n\n") else new
src = open(os.path.join('/repo', rel)).read()
old = old.strip("\n"); new = new.strip("\n")
if src.count(old) != 1:
    sys.exit(f"pattern occurs {src.count(old)} times in {rel}")
tmp = tempfile.mkdtemp()
a = os.path.join(tmp, 'a', rel); b = os.path.join(tmp, 'b', rel)
os.makedirs(os.path.dirname(a)); os.makedirs(os.path.dirname(b))
open(a, 'w').write(src); open(b, 'w').write(src.replace(old, new))
d = subprocess.run(['diff', '-u', 'a/' + rel, 'b/' + rel], cwd=tmp, capture_output=True, text=True).stdout
shutil.rmtree(tmp)
out = f'/verif/corpus/{kind}/{prop}'
os.makedirs(out, exist_ok=True)
open(f'{out}/{name}.patch', 'w').write(d)
if kind == 'mutants':
    open(f'{out}/{name}.expect', 'w').write(expect)
print("wrote", f'{out}/{name}.patch')
