#!/bin/bash
# usage: tools_refactor_round.sh Cxx...   - behaviour-preserving refactorings proposed by sub-agents
# (/tmp/seedout-Cxx/h{1,2,3}/{patch.diff,meta.json}): the property's check must stay quiet (exit 0) on each.
cd /verif
for p in "$@"; do for v in h1 h2 h3; do
  d=/tmp/seedout-$p/$v; [ -f $d/patch.diff ] && [ -s $d/patch.diff ] || { echo "$p/$v: no patch"; continue; }
  id=$(python3 -c "import json;print(json.load(open('$d/meta.json'))['id'])" 2>/dev/null || echo "$p-$v")
  B=$(mktemp -d /tmp/seedchk-XXXXXX); rsync -a --exclude .git /repo/ $B/
  if ! (cd $B && patch -p1 -s < $d/patch.diff); then echo "$p/$v $id: PATCH DOES NOT APPLY"; rm -rf $B; continue; fi
  GOVC_REPO=$B timeout 900 /verif/bin/govc -prop $p -noreplay > $d/check.log 2>&1; CK=$?
  rm -rf $B
  echo "$p/$v $id check_rc=$CK; $(grep '^VIOLATION' $d/check.log | head -2 | sed 's/.*obligation=//' | tr '\n' ';')$(grep '^ENGINE\|^VACUOUS' $d/check.log | head -2 | tr '\n' ';')"
done; done
