#!/bin/bash
# usage: tools_trypatch.sh <prop> <patch-file> : run the property's check on a scratch copy of /repo with the patch applied
p=$1; f=$2
B=$(mktemp -d /tmp/trypatch-XXXXXX); rsync -a --exclude .git /repo/ $B/
(cd $B && patch -p1 -s < $f) || { echo "PATCH DOES NOT APPLY"; rm -rf $B; exit 1; }
GOVC_REPO=$B timeout 900 /verif/bin/govc -prop $p -noreplay 2>&1 | grep -v "^WARNING\|^KNOWN" | cut -c1-300
rm -rf $B
