#!/usr/bin/env python3
# Inserts / refreshes the "//@   params ..." line of every "//@ func <name>" block of the contract files in /repo:
# the parameter names (receiver first) of the function as it is NOW. Run after writing contracts; the engine uses the
# line to keep resolving clauses when a parameter is renamed later.
import re, subprocess, sys, glob, json
out = subprocess.run(['/verif/bin/govc', '-emit-params'], capture_output=True, text=True).stdout
sigs = {}
for line in out.splitlines():
    if '\t' in line:
        k, v = line.split('\t', 1)
        sigs[k] = v.split()
changed = 0
for f in glob.glob('/repo/utils/**/zz_contracts_verif.go', recursive=True):
    pkgdir = f[len('/repo/utils/'):].rsplit('/', 1)[0]
    lines = open(f).read().split('\n')
    res = []
    i = 0
    while i < len(lines):
        l = lines[i]
        res.append(l)
        m = re.match(r'^//@ func (\S+)', l)
        if m:
            name = m.group(1)
            key = pkgdir + ':' + name
            if i + 1 < len(lines) and lines[i+1].startswith('//@   params '):
                i += 1  # drop the old line
            if key in sigs and sigs[key]:
                res.append('//@   params ' + ' '.join(sigs[key]))
                changed += 1
        i += 1
    open(f, 'w').write('\n'.join(res))
print('params lines written:', changed)
