#!/bin/bash
# usage: seedone.sh <seed-id> : re-run the property check on a scratch copy with the seeded patch
id=$1; p=${id%%-*}
B=$(mktemp -d /tmp/seedchk-XXXXXX); rsync -a --exclude .git /repo/ $B/
(cd $B && patch -p1 -s < /verif/seeded/$id/patch.diff) || { echo "$id: PATCH DOES NOT APPLY"; rm -rf $B; exit 1; }
GOVC_REPO=$B timeout 900 /verif/bin/govc -prop $p -noreplay > /verif/seeded/$id/check.log 2>&1; CK=$?
rm -rf $B
echo "seed=$id check_rc=$CK"
grep "^VIOLATION\|^ENGINE" /verif/seeded/$id/check.log | sed 's/.*obligation=/   caught by: /' | head -6
